#!/usr/bin/env python3
"""Sensitivity protocol (DESIGN section 7): applies hand-written mutants (string
replacements) to a scratch copy of the repository outside /repo and /verif, optionally
confirms the pinned suite still passes, runs the named quick checks against the copy
(VERIF_REPO), and reports which are caught.  The scratch copy is removed afterwards.

usage: mutants.py [--suite] [name-substring ...]      (no names = all)
       mutants.py --patch file.diff C01 C08 ...       (a unified diff instead of the table)
"""
import json
import os
import shutil
import subprocess
import sys
import tempfile

HERE = os.path.dirname(os.path.dirname(os.path.abspath(__file__)))
G = 'gym_gridverse/'

# name, file, old, new, properties expected to catch it
MUTANTS = [
    ('move_ignores_blocking', G + 'envs/transition_functions.py', "    if not obj.blocks_movement:\n        state.agent.position = next_position", "    if True:\n        state.agent.position = next_position", ['C08']),
    ('move_no_bounds_guard', G + 'envs/transition_functions.py', "    if not state.grid.area.contains(next_position):\n        return\n\n    obj = state.grid[next_position]\n    if not obj.blocks_movement:", "    try:\n        obj = state.grid[next_position]\n    except IndexError:\n        return\n    if not obj.blocks_movement:", ['C01', 'C08']),
    ('next_position_left_right_swapped', G + 'envs/utils.py', "    Action.MOVE_LEFT: Orientation.L,\n    Action.MOVE_RIGHT: Orientation.R,", "    Action.MOVE_LEFT: Orientation.R,\n    Action.MOVE_RIGHT: Orientation.L,", ['C08', 'C18']),
    ('turn_table_swapped', G + 'envs/transition_functions.py', "    Action.TURN_LEFT: Orientation.L,\n    Action.TURN_RIGHT: Orientation.R,", "    Action.TURN_LEFT: Orientation.R,\n    Action.TURN_RIGHT: Orientation.L,", ['C08']),
    ('rotation_table_entry', G + 'geometry.py', "    (Orientation.B, Orientation.L): Orientation.R,", "    (Orientation.B, Orientation.L): Orientation.L,", ['C18']),
    ('transform_neg_sign', G + 'geometry.py', "            -(-self.orientation * self.position),", "            (-self.orientation * self.position),", ['C18']),
    ('area_branch_L', G + 'geometry.py', "                return Area(\n                    (-other.xmax, -other.xmin),\n                    (other.ymin, other.ymax),\n                )", "                return Area(\n                    (-other.xmax, -other.xmin),\n                    (-other.ymax, -other.ymin),\n                )", ['C18', 'C05', 'C07']),
    ('contains_ignores_shape', G + 'spaces.py', "            state.grid.shape == self.grid_shape\n            and state.grid.object_types()", "            state.grid.object_types()", ['C01']),
    ('contains_ignores_held', G + 'spaces.py', "            and type(state.agent.grid_object) in self._agent_object_types\n", "", ['C01']),
    ('action_check_removed', G + 'envs/gridworld.py', "        if not self.action_space.contains(action):", "        if False:", ['C01']),
    ('obs_contains_x_bound', G + 'spaces.py', "        x_in_grid = 0 <= observation.agent.position.x < self.area.width", "        x_in_grid = 0 <= observation.agent.position.x <= self.area.width", ['C01']),
]


def run(cmd, **kw):
    return subprocess.run(cmd, shell=True, capture_output=True, text=True, **kw)


def scratch():
    d = tempfile.mkdtemp(prefix='gvmut_', dir='/tmp')
    run(f'rsync -a --exclude .git --exclude __pycache__ --exclude docs --exclude images /repo/ {d}/')
    return d


def check(d, pid, seed='1'):
    r = run(f'VERIF_REPO={d} VERIF_SEED={seed} VERIF_EVIDENCE_DIR={d}/.ev VERIF_FOUND_DIR={d}/.found {HERE}/check {pid} quick', cwd=HERE)
    viol = [l for l in r.stdout.splitlines() if l.startswith('VIOLATION')]
    msg = [l for l in r.stdout.splitlines() if l.startswith('[') or l.startswith('regression')]
    rc = r.returncode
    if rc == 1 and not viol:
        rc = 3  # exit 1 without a VIOLATION line is not a detection
    return rc, viol, msg


def suite_ok(d):
    r = run(f'/venv/bin/python {HERE}/tools/baseline.py {d}')
    return r.returncode == 0, r.stdout.strip().splitlines()[0] if r.stdout else r.stderr[-300:]


def main(argv):
    do_suite = '--suite' in argv
    argv = [a for a in argv if a != '--suite']
    if argv and argv[0] == '--patch':
        patch, pids = argv[1], argv[2:]
        d = scratch()
        try:
            r = run(f'patch -p1 < {os.path.abspath(patch)}', cwd=d)
            if r.returncode:
                print('patch failed', r.stdout, r.stderr)
                return 2
            if do_suite:
                print('suite:', suite_ok(d))
            for pid in pids:
                rc, viol, msg = check(d, pid)
                print(pid, 'exit', rc, 'CAUGHT' if rc == 1 else 'missed', (msg or [''])[0][:200])
        finally:
            shutil.rmtree(d, ignore_errors=True)
        # evidence files were rewritten against the scratch copy: they are not evidence
        return 0
    results = {}
    for name, fn, old, new, props in MUTANTS:
        if argv and not any(a in name for a in argv):
            continue
        d = scratch()
        try:
            p = os.path.join(d, fn)
            s = open(p).read()
            if s.count(old) != 1:
                print(f'{name}: pattern occurs {s.count(old)} times -- skipped')
                continue
            open(p, 'w').write(s.replace(old, new))
            line = f'{name}:'
            if do_suite:
                ok, m = suite_ok(d)
                line += f' suite_passes={ok}'
            res = {}
            for pid in props:
                rc, viol, msg = check(d, pid)
                res[pid] = rc
                line += f' {pid}={"CAUGHT" if rc == 1 else "MISSED(exit %d)" % rc}'
                if rc == 1 and msg:
                    line += f' ({msg[0][:110]})'
            results[name] = res
            print(line, flush=True)
        finally:
            shutil.rmtree(d, ignore_errors=True)
    return 0


if __name__ == '__main__':
    sys.exit(main(sys.argv[1:]))
