#!/usr/bin/env python3
"""Sensitivity protocol (DESIGN section 7): applies hand-written mutants (string
replacements) to a scratch copy of the repository outside /repo and /verif, optionally
confirms the pinned suite still passes, runs the named quick checks against the copy
(VERIF_REPO), and reports which are caught.  The scratch copy is removed afterwards.

usage: mutants.py [--suite] [name-substring ...]      (no names = all)
       mutants.py --patch file.diff C01 C08 ...       (a unified diff instead of the table)
"""
import json
import os
import shutil
import subprocess
import sys
import tempfile

HERE = os.path.dirname(os.path.dirname(os.path.abspath(__file__)))
G = 'gym_gridverse/'

# name, file, old, new, properties expected to catch it
MUTANTS = [
    ('move_ignores_blocking', G + 'envs/transition_functions.py', "    if not obj.blocks_movement:\n        state.agent.position = next_position", "    if True:\n        state.agent.position = next_position", ['C08']),
    ('move_no_bounds_guard', G + 'envs/transition_functions.py', "    if not state.grid.area.contains(next_position):\n        return\n\n    obj = state.grid[next_position]\n    if not obj.blocks_movement:", "    try:\n        obj = state.grid[next_position]\n    except IndexError:\n        return\n    if not obj.blocks_movement:", ['C01', 'C08']),
    ('next_position_left_right_swapped', G + 'envs/utils.py', "    Action.MOVE_LEFT: Orientation.L,\n    Action.MOVE_RIGHT: Orientation.R,", "    Action.MOVE_LEFT: Orientation.R,\n    Action.MOVE_RIGHT: Orientation.L,", ['C08', 'C18']),
    ('turn_table_swapped', G + 'envs/transition_functions.py', "    Action.TURN_LEFT: Orientation.L,\n    Action.TURN_RIGHT: Orientation.R,", "    Action.TURN_LEFT: Orientation.R,\n    Action.TURN_RIGHT: Orientation.L,", ['C08']),
    ('rotation_table_entry', G + 'geometry.py', "    (Orientation.B, Orientation.L): Orientation.R,", "    (Orientation.B, Orientation.L): Orientation.L,", ['C18']),
    ('transform_neg_sign', G + 'geometry.py', "            -(-self.orientation * self.position),", "            (-self.orientation * self.position),", ['C18']),
    ('area_branch_L', G + 'geometry.py', "                return Area(\n                    (-other.xmax, -other.xmin),\n                    (other.ymin, other.ymax),\n                )", "                return Area(\n                    (-other.xmax, -other.xmin),\n                    (-other.ymax, -other.ymin),\n                )", ['C18', 'C05', 'C07']),
    ('contains_ignores_shape', G + 'spaces.py', "            state.grid.shape == self.grid_shape\n            and state.grid.object_types()", "            state.grid.object_types()", ['C01']),
    ('contains_ignores_held', G + 'spaces.py', "            and type(state.agent.grid_object) in self._agent_object_types\n", "", ['C01']),
    ('action_check_removed', G + 'envs/gridworld.py', "        if not self.action_space.contains(action):", "        if False:", ['C01']),
    ('obs_contains_x_bound', G + 'spaces.py', "        x_in_grid = 0 <= observation.agent.position.x < self.area.width", "        x_in_grid = 0 <= observation.agent.position.x <= self.area.width", ['C01']),
]

T = G + 'envs/transition_functions.py'
R = G + 'envs/reward_functions.py'
MUTANTS += [
    # ---- C02
    ('chain_drops_rng', T, "        transition_function(state, action, rng=rng)", "        transition_function(state, action)", ['C02']),
    ('from_visibility_drops_rng', G + 'envs/observation_functions.py', "        observation_grid, pov_agent_position, rng=rng\n", "        observation_grid, pov_agent_position\n", ['C02']),
    ('set_seed_ignores_seed', G + 'envs/gridworld.py', "        self._rng = make_rng(seed)", "        self._rng = make_rng()", ['C02']),
    ('stochastic_raytracing_global_numpy', G + 'envs/visibility_functions.py', "    visibility = rng.random(probs.shape) < probs", "    visibility = np.random.random(probs.shape) < probs", ['C02']),
    ('debug_branch_consumes_rng', G + 'envs/gridworld.py', "        if gv_debug() and not self.state_space.contains(next_state):", "        if gv_debug() and self._rng is not None and self._rng.random() < 2 and not self.state_space.contains(next_state):", ['C02']),
    # ---- C03
    ('transition_with_copy_shallow', T, "    next_state = fast_copy(state)\n", "    next_state = type(state)(state.grid, fast_copy(state.agent))\n", ['C03']),
    # ---- C04
    ('step_keeps_stale_observation', G + 'envs/inner_env.py', "        self._state, reward, done = self.functional_step(self.state, action)\n        self._observation = None", "        self._state, reward, done = self.functional_step(self.state, action)", ['C04']),
    ('reset_keeps_stale_observation', G + 'envs/inner_env.py', "        self._state = self.functional_reset()\n        self._observation = None", "        self._state = self.functional_reset()", ['C04']),
    ('observation_recomputed_every_read', G + 'envs/inner_env.py', "        if self._observation is None:", "        if True:", ['C04']),
    ('observation_eager_in_step', G + 'envs/inner_env.py', "        self._state, reward, done = self.functional_step(self.state, action)\n        self._observation = None", "        self._state, reward, done = self.functional_step(self.state, action)\n        self._observation = self.functional_observation(self._state)", ['C04']),
    ('state_guard_removed', G + 'envs/inner_env.py', "        if self._state is None:\n            raise RuntimeError(", "        if False:\n            raise RuntimeError(", ['C04']),
    # ---- C05 / C07
    ('grid_rotation_R_L_swapped', G + 'grid.py', "    Orientation.R: _rotate_matrix_left,\n    Orientation.B: _rotate_matrix_backward,\n    Orientation.L: _rotate_matrix_right,", "    Orientation.R: _rotate_matrix_right,\n    Orientation.B: _rotate_matrix_backward,\n    Orientation.L: _rotate_matrix_left,", ['C05', 'C07', 'C18']),
    ('subgrid_negative_indices_wrap', G + 'grid.py', "                    if 0 <= y < self.area.height and 0 <= x < self.area.width", "                    if -self.area.height <= y < self.area.height and -self.area.width <= x < self.area.width", ['C05', 'C07']),
    ('observation_drops_held_item', G + 'envs/observation_functions.py', "        pov_agent_position, Orientation.F, state.agent.grid_object\n", "        pov_agent_position, Orientation.F\n", ['C05']),
    # ---- C06
    ('flood_fill_through_opaque', G + 'envs/visibility_functions.py', "        if not grid[position].blocks_vision:\n            for next_position", "        if True:\n            for next_position", ['C06']),
    ('light_updated_before_counting', G + 'envs/visibility_functions.py', "            counts_num[pos.y, pos.x] += int(light)\n            counts_den[pos.y, pos.x] += 1\n            light = light and not grid[pos].blocks_vision", "            light = light and not grid[pos].blocks_vision\n            counts_num[pos.y, pos.x] += int(light)\n            counts_den[pos.y, pos.x] += 1", ['C06'], 2),
    ('stochastic_probs_not_clipped', G + 'envs/visibility_functions.py', "    probs = np.nan_to_num(counts_num / counts_den)", "    probs = np.nan_to_num(counts_num / counts_den) + 0.2", ['C06']),
    ('stochastic_probability_epsilon', G + 'envs/visibility_functions.py', "    probs = np.nan_to_num(counts_num / counts_den)", "    probs = counts_num / (counts_den + 1e-8)", ['C06']),
    ('stochastic_noise_float32_nonstrict', G + 'envs/visibility_functions.py', "    visibility = rng.random(probs.shape) < probs", "    visibility = rng.random(probs.shape, dtype=np.float32) <= probs", ['C06']),
    # ---- identity-keyed memos (answers remembered by object, stale after an in-place edit)
    ('functional_observation_memo_by_identity', G + 'envs/gridworld.py', "        observation = self._observation_function(state, rng=self._rng)\n",
     "        memo = getattr(self, '_obs_memo', None)\n        if memo is not None and memo[0] is state:\n            return memo[1]\n        observation = self._observation_function(state, rng=self._rng)\n        self._obs_memo = (state, observation)\n", ['C05']),
    ('shortest_path_distance_memo_by_identity', R, "    distance_prev = _distance_agent_object(state)\n    distance_next = _distance_agent_object(next_state)",
     "    memo = getting_closer_shortest_path.__dict__.setdefault('_memo', {})\n    distance_prev = _distance_agent_object(state)\n    if memo.get('obj') is next_state:\n        distance_next = memo['d']\n    else:\n        distance_next = _distance_agent_object(next_state)\n        memo['obj'], memo['d'] = next_state, distance_next", ['C12'], 2),
    ('functional_step_snapshot_by_identity', G + 'envs/gridworld.py', "        next_state = transition_with_copy(\n            self._transition_function,\n            state,\n            action,\n            rng=self._rng,\n        )",
     "        import pickle\n        snap = getattr(self, '_snap', None)\n        if snap is None or snap[0] is not state:\n            snap = self._snap = (state, pickle.dumps(state))\n        next_state = pickle.loads(snap[1])\n        self._transition_function(next_state, action, rng=self._rng)", ['C08', 'C09', 'C10', 'C11']),
    # ---- C09
    ('drop_overwrites_anything', T, "    can_be_dropped = isinstance(obj_front, Floor) or obj_front.holdable", "    can_be_dropped = True", ['C09']),
    ('obstacle_moves_by_assignment', T, "            state.grid.swap(position, next_position)", "            state.grid[next_position] = state.grid[position]", ['C09', 'C11']),
    # ---- C10
    ('door_colour_check_dropped', T, "            isinstance(state.agent.grid_object, Key)\n            and state.agent.grid_object.color == door.color", "            isinstance(state.agent.grid_object, Key)", ['C10']),
    ('actuate_closes_open_doors', T, "    if door.is_open:\n        pass", "    if door.is_open:\n        door.state = Door.Status.CLOSED", ['C10']),
    ('key_consumed_on_unlock', T, "            and state.agent.grid_object.color == door.color\n        ):\n            door.state = Door.Status.OPEN", "            and state.agent.grid_object.color == door.color\n        ):\n            door.state = Door.Status.OPEN\n            state.agent.grid_object = NoneGridObject()", ['C10', 'C09']),
    # ---- C11
    ('obstacle_onto_any_walkable', T, "            and isinstance(state.grid[next_position], Floor)", "            and not state.grid[next_position].blocks_movement", ['C11']),
    ('teleport_colour_filter_dropped', T, "            and isinstance(state.grid[position], Telepod)\n            and state.grid[position].color == telepod.color", "            and isinstance(state.grid[position], Telepod)", ['C11']),
    ('teleport_may_stay', T, "            if position != state.agent.position\n            and isinstance(state.grid[position], Telepod)", "            if isinstance(state.grid[position], Telepod)", ['C11']),
    # ---- C12
    ('getting_closer_signs_swapped', R, "        reward_closer\n        if distance_next < distance_prev", "        reward_closer\n        if distance_next > distance_prev", ['C12'], 2),
    ('reward_overlap_uses_state', R, "        if isinstance(next_state.grid[next_state.agent.position], object_type)", "        if isinstance(state.grid[state.agent.position], object_type)", ['C12']),
    ('gridworld_reward_args_swapped', G + 'envs/gridworld.py', "        reward = self._reward_function(state, action, next_state)", "        reward = self._reward_function(next_state, action, state)", ['C12']),
    ('reduce_any_is_all', G + 'envs/terminating_functions.py', "        reduction=any,", "        reduction=all,", ['C12']),
    ('pickndrop_reward_swapped', R, "        reward_pick\n        if not has_key and next_has_key", "        reward_pick\n        if has_key and not next_has_key", ['C12']),
    # ---- C13
    ('empty_exit_on_boundary', G + 'envs/reset_functions.py', "        exit_y = shape.height - 2\n", "        exit_y = shape.height - 1\n", ['C13']),
    ('keydoor_key_beyond_wall', G + 'envs/reset_functions.py', "    x_key = rng.integers(1, x_wall - 1, endpoint=True)", "    x_key = rng.integers(1, x_wall + 1, endpoint=True)", ['C13', 'C14']),
    ('keydoor_agent_beyond_wall', G + 'envs/reset_functions.py', "    x_agent = rng.integers(1, x_wall - 1, endpoint=True)", "    x_agent = rng.integers(1, shape.width - 2, endpoint=True)", ['C13']),
    # ---- C16
    ('no_overlap_status_offset', G + 'representations/representation.py', "            max_agent_object_type_index + grid_object.state_index + 1,", "            max_agent_object_type_index + grid_object.state_index,", ['C16']),
    # ---- C17
    ('only_first_reward_kept', G + 'envs/yaml/factory.py', "            factory_reward_function(d) for d in data['reward_functions']", "            factory_reward_function(d) for d in data['reward_functions'][:1]", ['C17']),
    ('transition_list_reversed', G + 'envs/yaml/factory.py', "            factory_transition_function(d) for d in data['transition_functions']", "            factory_transition_function(d) for d in data['transition_functions'][::-1]", ['C17']),
    ('shape_reversed', G + 'envs/yaml/factory.py', "        data['shape'] = Shape(*data['shape'])", "        data['shape'] = Shape(*data['shape'][::-1])", ['C17']),
    # ---- C19
    ('ray_step_size_1', G + 'utils/raytracing.py', "step_size=0.01)", "step_size=1.0)", ['C19'], 2),
    ('ray_truncates_instead_of_rounding', G + 'utils/raytracing.py', "Position(round(y), round(x))", "Position(int(y), int(x))", ['C19']),
    ('ray_dedup_removed', G + 'utils/raytracing.py', "    positions = mitt.unique_everseen(positions) if unique else positions", "    positions = positions", ['C19']),
    # ---- C20
    ('int_to_action_off_by_one', G + 'spaces.py', "        return self.actions[action]", "        return self.actions[action - 1]", ['C20', 'C01']),
    ('wrapper_returns_observation', G + 'gym.py', "        return self.observation, reward, done, info", "        return observation, reward, done, info", ['C20']),
    ('gym_space_not_updated_on_switch', G + 'gym.py', "        self.observation_space = outer_space_to_gym_space(\n            self.outer_env.observation_representation.space\n        )", "        pass", ['C20']),
    ('gym_step_reads_observation_before_stepping', G + 'gym.py', "        reward, done = self.outer_env.step(action_)\n        return self.observation, reward, done, {}", "        observation = self.observation\n        reward, done = self.outer_env.step(action_)\n        return observation, reward, done, {}", ['C20']),
]


def run(cmd, **kw):
    return subprocess.run(cmd, shell=True, capture_output=True, text=True, **kw)


def scratch():
    d = tempfile.mkdtemp(prefix='gvmut_', dir='/tmp')
    run(f'rsync -a --exclude .git --exclude __pycache__ --exclude docs --exclude images /repo/ {d}/')
    return d


def check(d, pid, seed='1'):
    r = run(f'VERIF_REPO={d} VERIF_SEED={seed} VERIF_EVIDENCE_DIR={d}/.ev VERIF_FOUND_DIR={d}/.found {HERE}/check {pid} quick', cwd=HERE)
    viol = [l for l in r.stdout.splitlines() if l.startswith('VIOLATION')]
    msg = [l for l in r.stdout.splitlines() if l.startswith('[') or l.startswith('regression')]
    rc = r.returncode
    if rc == 1 and not viol:
        rc = 3  # exit 1 without a VIOLATION line is not a detection
    return rc, viol, msg


def suite_ok(d):
    r = run(f'/venv/bin/python {HERE}/tools/baseline.py {d}')
    return r.returncode == 0, r.stdout.strip().splitlines()[0] if r.stdout else r.stderr[-300:]


def main(argv):
    do_suite = '--suite' in argv
    argv = [a for a in argv if a != '--suite']
    if argv and argv[0] == '--patch':
        patch, pids = argv[1], argv[2:]
        d = scratch()
        try:
            r = run(f'patch -p1 < {os.path.abspath(patch)}', cwd=d)
            if r.returncode:
                print('patch failed', r.stdout, r.stderr)
                return 2
            if do_suite:
                print('suite:', suite_ok(d))
            for pid in pids:
                rc, viol, msg = check(d, pid)
                print(pid, 'exit', rc, 'CAUGHT' if rc == 1 else 'missed', (msg or [''])[0][:200])
        finally:
            shutil.rmtree(d, ignore_errors=True)
        # evidence files were rewritten against the scratch copy: they are not evidence
        return 0
    results = {}
    for entry in MUTANTS:
        name, fn, old, new, props = entry[:5]
        want = entry[5] if len(entry) > 5 else 1
        if argv and not any(a in name for a in argv):
            continue
        d = scratch()
        try:
            p = os.path.join(d, fn)
            s = open(p).read()
            if s.count(old) != want:
                print(f'{name}: pattern occurs {s.count(old)} times -- skipped')
                continue
            open(p, 'w').write(s.replace(old, new))
            line = f'{name}:'
            if do_suite:
                ok, m = suite_ok(d)
                line += f' suite_passes={ok}'
            res = {}
            for pid in props:
                rc, viol, msg = check(d, pid)
                res[pid] = rc
                line += f' {pid}={"CAUGHT" if rc == 1 else "MISSED(exit %d)" % rc}'
                if rc == 1 and msg:
                    line += f' ({msg[0][:110]})'
            results[name] = res
            print(line, flush=True)
        finally:
            shutil.rmtree(d, ignore_errors=True)
    return 0


if __name__ == '__main__':
    sys.exit(main(sys.argv[1:]))
