#!/usr/bin/env python3
"""Regenerates MANIFEST.json from the table below; a property is claimed iff
vgv/props/<id>.py exists.  Run:  python3 tools/mkmanifest.py"""
import json
import os

HERE = os.path.dirname(os.path.dirname(os.path.abspath(__file__)))

P = {
    'C01': dict(
        tech='property-based testing (Hypothesis): generated states x actions x compositions against a reference membership model; exhaustive enumeration of action subsets; generated histories of shipped configurations',
        text='Generated-input search: every step result is judged by an independent membership model and by the declared spaces; the space predicates are compared in both directions with the model on conforming and single-aspect non-conforming members; shipped configurations are walked with generated action sequences. Exploration, not proof: bounded grid sizes and case counts.',
        note='Trusted: Hypothesis, the descriptor builder/canonicaliser, vendored PyYAML as a parser. Preconditions respected by construction (unique objects for distance rewards, beacon present for memory reward, partially_occluded only with area.ymax == 0).', ref='4/C01'),
    'C02': dict(
        tech='stateful property-based testing (Hypothesis rule-based machine) with replay oracle and global-RNG snapshots; differential across interpreter processes with different PYTHONHASHSEED and against interpreters started freshly after warm-up environments; reset functions, transition chains and observation functions under differently seeded global generators',
        text='Interleaved operations on several seeded environments are replayed alone and must give identical traces; every operation must leave numpy.random, random and the library generator untouched; worker processes started with different hash seeds must produce identical trace digests.',
        note='Hash-seed dependence is sampled at a few PYTHONHASHSEED values per run. Trusted: canonical form, PyYAML parser.', ref='4/C02'),
    'C03': dict(
        tech='property-based testing (Hypothesis): before/after canonical-form comparison, identity-disjointness and behavioural scribble tests, metamorphic history independence across cache-churning call sequences; every answer of selected cases compared with the answer of a process that has executed nothing before',
        text='Generated states (nested boxes, doors, held items) x actions x compositions: inputs canonically unchanged, next state shares no mutable part with its input (by object identity and by mutation in both directions), answers equal before and after intervening calls that churn the memoisation caches, copies equal and hash alike.',
        note='Observation cells aliasing state objects is not reported (the property only constrains states and next states). Exploration level.', ref='4/C03'),
    'C04': dict(
        tech='stateful property-based testing (Hypothesis rule-based machine) against a shadow driven through the functional interface with the same seed (rejected steps, re-seeding, representation swaps, kept reset objects)',
        text='Arbitrary read/step/reset patterns on an environment are mirrored by a twin that threads states through the functional interface and computes each observation once per state; any stale, eager or repeated computation desynchronises the two generators and is observed as a differing state/observation.',
        note='Uses stochastic transitions and stochastic_raytracing so RNG consumption is observable. Exploration level.', ref='4/C04'),
    'C05': dict(
        tech='property-based testing (Hypothesis) against a reference model of the view-cell to world-cell map (view areas up to 257x257; observe, edit in place, observe again)',
        text='For generated grids, poses, areas and all five observation functions each observation cell must be Hidden or canonically equal to the model-mapped world cell; off-grid cells Hidden; shape, agent anchor, heading and held item as stated; fully_transparent shows every in-grid cell.',
        note='Model uses forward/right vectors, independent of the rotation tables. Exploration level.', ref='4/C05'),
    'C06': dict(
        tech='metamorphic property-based testing (Hypothesis) plus exhaustive enumeration of opacity patterns of small views; large views (up to 33x33) incl. worlds built so that exactly one of n rays reaches a cell lit; adversarial numpy Generator for the stochastic variant',
        text='Replacing hidden/out-of-view cells must not change the observation; agent cell visible; visible cells linked through visible transparent cells; clearing a visible opaque cell hides nothing; stochastic view bracketed by deterministic ones. Small views are enumerated over all opacity patterns.',
        note='The exact visible set is not asserted. Exploration (exhaustive only for the enumerated views).', ref='4/C06'),
    'C07': dict(
        tech='metamorphic property-based testing (Hypothesis): coordinate-level world rotation vs. observation equality; pose sweeps through very wide worlds and their rotations; user-defined sequence-like cells',
        text='The world (grid and pose) is rotated by an independent coordinate formula and the observation must be canonically equal, for all deterministic observation functions and generated areas.',
        note='Exploration level.', ref='4/C07'),
    'C08': dict(
        tech='property-based testing (Hypothesis) against a reference kinematics model; exhaustive heading x action x target-kind table; generated histories; edited histories (every calling convention of the dynamics interleaved with user edits); coordinate sweeps over worlds of up to 2 x 65600 cells',
        text='Generated and enumerated (state, action) pairs are compared with a model of moves/turns; histories from valid initial states keep the agent inside the grid and off blocking cells.',
        note='blocks_movement read from the real object, door-status relation checked against model table. Exploration level.', ref='4/C08'),
    'C09': dict(
        tech='property-based testing (Hypothesis): multiset-conservation invariant and differential against a reference transition model; generated histories; edited histories; user-defined payload objects',
        text='Multiset of deep-canonical objects (grid plus hand) conserved up to box opening; deterministic chains equal the model next state exactly; scenery never moves.',
        note='Exploration level.', ref='4/C09'),
    'C10': dict(
        tech='exhaustive enumeration of door/key/pose/action table plus property-based testing (Hypothesis) against a reference model; guided and random histories; edited histories; stateful route compared deeply; one agent object carried through very wide worlds',
        text='All status x colour x held item x relative pose x action combinations are checked against the documented door/box rules; generated multi-door states and key-door histories check that locked doors open only by a faced ACTUATE with a matching key.',
        note='Exhaustive for the enumerated table only.', ref='4/C10'),
    'C11': dict(
        tech='property-based testing (Hypothesis) with a scripted numpy Generator resolving every random choice, validity predicate over outcomes and possibility coverage; edited histories; telepod histories with every outcome resolved after world edits; coordinate sweeps',
        text='Obstacle and telepod layouts are run under all scripted outcomes (or many seeds); each outcome must satisfy an order-agnostic validity predicate and every allowed destination must be produced by some outcome.',
        note='Possibility relies on the scripted generator while the code draws through Generator.choice/integers; otherwise falls back to seeds.', ref='4/C11'),
    'C12': dict(
        tech='differential property-based testing (Hypothesis) against docstring re-implementations of every reward/termination function (also inside worlds of more than 1000 cells, and asked again after in-place edits)',
        text='Arbitrary and dynamics-produced (state, action, next state) triples with generated parameters: exact agreement with the model, composites equal sum/any/all of parts, GridWorld evaluates on the same step, exit reward paid exactly when exit-termination fires along shipped trajectories.',
        note='bump_into_wall compared on states whose agent is not on a wall; beacons share one colour. Exploration level.', ref='4/C12'),
    'C13': dict(
        tech='property-based testing (Hypothesis): generated parameters x seeds against a well-formedness predicate per reset function; adversarial numpy Generator (legal extreme outcomes); exhaustive sweep of (length, rooms) pairs',
        text='Each call must return a state satisfying the model predicate for that function or raise ValueError; honourable parameter families must not raise.',
        note='River count for crossing not asserted. Exploration level.', ref='4/C13'),
    'C14': dict(
        tech='property-based testing (Hypothesis) with model planning and breadth-first search over the real step function as witness oracle; long layouts with adversarial generators; exhaustive sweep of (length, rooms) pairs',
        text='For generated valid parameters and seeds a witness action sequence is planned on descriptors and executed on the real functional_step; absence is decided by exhaustive BFS over the real step for deterministic environments.',
        note='dynamic_obstacles: randomised witness search, no-witness = inconclusive.', ref='4/C14'),
    'C15': dict(
        tech='property-based testing (Hypothesis) with members built to hit every maximum; exhaustive per-object enumeration; generated histories through OuterEnv and GymEnvironment (members tiled to dimensions of 40..300)',
        text='Member states/observations of generated spaces are converted under all three representations and checked key by key against the declared space, an independent bounds model and the gym spaces.',
        note='Exploration level.', ref='4/C15'),
    'C16': dict(
        tech='property-based testing (Hypothesis) on near-collision pairs plus exhaustive per-object enumeration over type/colour subsets; user-defined types (subclass orders, hundreds of statuses); environment-level reads across representation switches',
        text='Equality of representations iff equality of members, positional per-cell encoding, agent marker, default triple, channel disjointness (no-overlap) and gap-freeness (compact).',
        note='Exploration; exhaustive for the per-object claims over enumerated spaces.', ref='4/C16'),
    'C17': dict(
        tech='differential property-based testing (Hypothesis): factory-built environment vs. hand-assembled environment on generated trajectories; generated valid perturbations and corruptions of the shipped configurations; YAML files rewritten under preserved modification times; re-bound registry names',
        text='Shipped files, valid perturbations and systematic corruptions: byte-identical packaged copies, registry ids, differential trajectories, input unchanged, repeatable builds, factory(name, **kw) equivalence, rejection with SchemaError/ValueError.',
        note='PyYAML trusted as parser.', ref='4/C17'),
    'C18': dict(
        tech='exhaustive enumeration of orientation laws plus property-based testing (Hypothesis) with unbounded integers against an independent vector-basis model; laws re-checked after in-place pose updates; numpy-integer twins and offsets around 2**63',
        text='Group laws are enumerated completely over orientations; linearity, isometry, transform associativity/identity/inverse, area images, grid rotation and next-position agreement are searched over unbounded integer coordinates and compared with an independent model.',
        note='Exhaustive only over orientations; integer coordinates and area extents are sampled.', ref='4/C18'),
    'C19': dict(
        tech='exhaustive enumeration of areas x origins x rays plus property-based testing (Hypothesis) of offsets, angles and cache query histories; strips of up to 2800 cells, longest query first per process, a fan over a 10500-cell corridor',
        text='Every ray of every fan for all areas up to the bound is checked for origin, containment, uniqueness, adjacency and border termination; fans cover the area; cached and uncached results agree after arbitrary query histories.',
        note='Exhaustive up to the stated area bound.', ref='4/C19'),
    'C20': dict(
        tech='stateful property-based testing (Hypothesis rule-based machine) against a functionally driven twin environment (sibling instances of one id, inner environment driven directly, representations replaced behind the adapter)',
        text='reset/step/representation-switch/wrapper sequences on every shipped configuration (direct and through registry ids) must agree with a twin inner environment and stay inside the advertised gym spaces.',
        note='Representation conversion trusted here (covered by C15/C16); gym 0.26 wrappers bypassed via .unwrapped.', ref='4/C20'),
}


def main():
    checks = []
    na = []
    for pid in sorted(P):
        m = P[pid]
        if os.path.exists(os.path.join(HERE, 'vgv', 'props', pid.lower() + '.py')):
            checks.append({
                'property_id': pid,
                'quick_cmd': f'./check {pid} quick',
                'thorough_cmd': f'./check {pid} thorough',
                'evidence_file': f'/verif/evidence/{pid}.json',
                'replay_cmd_template': f'./check {pid} --replay {{path}}',
                'engine': 'vgv',
                'level_claimed': {'category': 'exploration', 'text': m['text'], 'design_ref': 'DESIGN.md section ' + m['ref']},
                'level_note': m['note'],
                'technique': m['tech'],
            })
        else:
            na.append({'property_id': pid, 'reason': 'check designed (DESIGN.md section ' + m['ref'] + ') but not implemented in this revision; not claimed until its module lands'})
    manifest = {
        'version': 1,
        'setup_cmd': './setup.sh',
        'hooks': {
            'guard': 'GYM_GRIDVERSE_VERIF',
            'enable': 'no source hooks are needed: every observation point is public API; checks import the working tree directly with GYM_GRIDVERSE_VERIF=1 set (unused by the repository)',
            'baseline_off_cmd': 'cd /repo && /venv/bin/python -m pytest -ra -q -p no:cacheprovider --timeout=900 --continue-on-collection-errors',
            'source_commits': [],
            'add_only': True,
        },
        'engines': [{
            'name': 'vgv', 'path': '/verif/vgv',
            'serves_properties': [c['property_id'] for c in checks],
            'kind_free_text': 'Hypothesis 6.168 property-based / stateful testing + exhaustive enumeration, reference model on JSON descriptors, replay files = shrunk cases',
        }],
        'checks': checks,
        'not_applicable': na,
        'notes': 'All checks run /venv/bin/python with PYTHONPATH=/verif/vendor:/repo and import the current working tree of /repo (no build step). VERIF_SEED selects the Hypothesis seed; PYTHONHASHSEED is pinned to 0 by ./check. Exit 2 = harness error. known_findings.json lists genuine defects (open / fixed).',
    }
    with open(os.path.join(HERE, 'MANIFEST.json'), 'w') as f:
        json.dump(manifest, f, indent=1)
    print(f'{len(checks)} claimed, {len(na)} not yet')


if __name__ == '__main__':
    main()
