#!/usr/bin/env python3
"""Writes seeded/MATRIX.md: which check catches which seeded change (from seeded/*/meta.json)."""
import json, os
HERE = os.path.dirname(os.path.dirname(os.path.abspath(__file__)))
S = os.path.join(HERE, 'seeded')
rows = []
for name in sorted(os.listdir(S)):
    mp = os.path.join(S, name, 'meta.json')
    if not os.path.exists(mp):
        continue
    m = json.load(open(mp))
    own = m['breaks_property']
    items = sorted(m.get('detected_by', {}).items(), key=lambda kv: (not kv[0].startswith(own), kv[0]))
    det = '; '.join(f"{k}: {v['verdict']}" + (f" — `{v['message'][:110]}`" if v['verdict'] == 'CAUGHT' and v.get('message') and k.startswith(own) else '') for k, v in items)
    rows.append(f"| {name} | {m['breaks_property']} | {m.get('needs_to_manifest', '')} | {det} |")
with open(os.path.join(S, 'MATRIX.md'), 'w') as f:
    f.write('# Seeded changes and the checks that catch them\n\nEach change was written by an independent sub-agent that saw only the property text and a scratch worktree; '
            'confirmed here (patch applies to /repo HEAD, demo passes clean / fails patched, pinned suite unchanged) and run against the checks with `tools/seeded.py run`.\n\n'
            '| change | property | needs | detected by (tier) |\n|---|---|---|---|\n' + '\n'.join(rows) + '\n')
print(len(rows), 'rows')
