#!/usr/bin/env python3
"""Runs the repository's pinned suite on /repo and compares the set of passing tests with
BASELINE.json's stable_pass.  exit 0 iff every stable_pass test still passes."""
import json, os, subprocess, sys, tempfile
import xml.etree.ElementTree as ET
repo = sys.argv[1] if len(sys.argv) > 1 else '/repo'
base = json.load(open('/root/.vp/BASELINE.json'))
with tempfile.TemporaryDirectory() as d:
    x = os.path.join(d, 'j.xml')
    subprocess.run(['/venv/bin/python', '-m', 'pytest', '-q', '-p', 'no:cacheprovider', '--timeout=900',
                    '--continue-on-collection-errors', f'--junitxml={x}'], cwd=repo, stdout=subprocess.DEVNULL, stderr=subprocess.DEVNULL)
    passed = set()
    for tc in ET.parse(x).getroot().iter('testcase'):
        if not any(c.tag in ('failure', 'error', 'skipped') for c in tc):
            passed.add(f"{tc.get('classname')}::{tc.get('name')}")
want = set(base['stable_pass'])
missing = sorted(want - passed)
print(f'passed {len(passed)}; stable_pass {len(want)}; stable_pass now failing: {len(missing)}')
for m in missing[:20]:
    print('  ', m)
sys.exit(1 if missing else 0)
