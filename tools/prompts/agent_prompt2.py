import sys
pid=sys.argv[1]
prop=open(f'/tmp/prop_{pid}.txt').read()
print(f"""You are working in a scratch git worktree of the open-source Python project abaisero/gym-gridverse at /tmp/wt2_{pid} (customisable gridworld RL environments: composable reset / transition / reward / observation / termination functions, YAML configuration, gym adapter). Work ONLY inside /tmp/wt2_{pid} and /tmp/out2_{pid}. Never modify or read /repo or /verif (one exception below). Do not commit anything.

How to run things: `cd /tmp/wt2_{pid} && PYTHONPATH=/tmp/wt2_{pid} /venv/bin/python script.py`. Test suite: `cd /tmp/wt2_{pid} && /venv/bin/python -m pytest -q -p no:cacheprovider tests 2>&1 | tail -5` (about 10 s; on the unchanged tree 1017 tests pass and 105 fail, the failures are all because PyYAML is not installed - that is expected; the set of passing tests must stay exactly the same). Always `import gym_gridverse` first in scripts (it makes more_itertools importable). If your demonstration needs to load a YAML configuration, add `sys.path.insert(0, '/verif/vendor')` BEFORE importing gym_gridverse (that directory holds a pure-Python PyYAML and nothing else you may look at) and add '/tmp/wt2_{pid}/examples' to sys.path only if you need examples/coin_env.yaml. gym is version 0.26 (GymEnvironment.seed() is broken there; seed via env.outer_env.inner_env.set_seed(n)).

Here is a semantic property that users of the library rely on:

{prop}
Your task: produce THREE independent, realistic changes to the library source under gym_gridverse/ (the kind of thing a maintainer could plausibly introduce: a refactoring slip, a well-meant optimisation or cache, an off-by-one, a wrong table entry, a dropped guard, a changed default, two sites that each look fine alone) such that each change
  1. still imports and runs,
  2. leaves the existing test suite result exactly as before (same passing set; run it and compare the failing test names before/after), and
  3. BREAKS THE PROPERTY ABOVE, but only under something specific - an unusual input (edge of the grid, particular heading, non-square shape, nested box, particular colour/status), a multi-step sequence of operations, a particular cache history or seed, or two cooperating sites - NOT something that ordinary use (e.g. running any shipped environment for a few steps) would expose at once. Prefer subtle over blatant; the three changes must have three different root causes (avoid the single most obvious bounds-check-at-the-grid-edge idea for more than one of them) and touch different mechanisms of the property.
Do not add new files to the library, do not touch tests/, and keep each change small (a few lines).

For each change k in {{1,2,3}} deliver in /tmp/out2_{pid}/:
  - patch{{k}}.diff : `git diff` of the worktree against HEAD containing ONLY that change (apply-able with `git apply` on a clean checkout of HEAD),
  - demo{{k}}.py : a small standalone script (takes the repo root from sys.argv[1], default '/tmp/wt2_{pid}', and puts it first on sys.path) that exits 0 on the unchanged tree and exits non-zero with a clear message on the changed tree, demonstrating the property violation through the library's public API,
  - notes{{k}}.md : which clause of the property breaks, what exactly is needed for it to manifest, and the commands you ran with their results (test suite counts before/after, demo before/after).
Verify everything yourself: with `git stash` / `git checkout -- .` confirm demo passes on the clean tree and fails with the patch applied, and that the pytest pass/fail sets are identical with and without the patch. Leave the worktree CLEAN (git checkout -- .) when you finish. In your final reply give a 4-line summary per change.""")
