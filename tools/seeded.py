#!/usr/bin/env python3
"""Seeded-change bookkeeping.

  seeded.py import <out_dir> <k> <name> <PROP> [--needs "..."]   verify an externally written change and file it
       under /verif/seeded/<name>/ (patch.diff, demo.py, notes.md, meta.json).  Verification = patch applies to a scratch
       copy of /repo's HEAD, demo exits 0 on the clean tree and non-zero on the patched one, pinned suite unchanged.
  seeded.py run [name-substring ...] [--props C01,C02] [--tier quick]   apply each filed change to a scratch copy, run the
       checks of the properties it is filed under (or --props), report CAUGHT / MISSED, update meta.json["detected_by"].
Scratch copies live under /tmp and are removed as soon as the run is over; /repo is never touched."""
import json
import os
import shutil
import subprocess
import sys
import tempfile

HERE = os.path.dirname(os.path.dirname(os.path.abspath(__file__)))
SEEDED = os.path.join(HERE, 'seeded')


def run(cmd, **kw):
    return subprocess.run(cmd, shell=True, capture_output=True, text=True, **kw)


def scratch():
    d = tempfile.mkdtemp(prefix='gvseed_', dir='/tmp')
    run(f'git -C /repo archive HEAD | tar -x -C {d}')
    return d


def apply(d, patch):
    r = run(f'git apply --whitespace=nowarn {patch}', cwd=d) if os.path.isdir(os.path.join(d, '.git')) else run(f'patch -p1 -s < {patch}', cwd=d)
    return r.returncode == 0, r.stdout + r.stderr


def demo(d, script):
    r = run(f'cd {d} && PYTHONPATH={d} /venv/bin/python -W ignore {script} {d}', timeout=600)
    return r.returncode, (r.stdout + r.stderr)[-400:]


def check(d, pid, tier='quick', seed='1'):
    r = run(f'VERIF_REPO={d} VERIF_SEED={seed} VERIF_EVIDENCE_DIR={d}/.ev VERIF_FOUND_DIR={d}/.found {HERE}/check {pid} {tier}', cwd=HERE)
    viol = [l for l in r.stdout.splitlines() if l.startswith('VIOLATION')]
    msg = [l for l in r.stdout.splitlines() if l.startswith('[') or l.startswith('regression')]
    rc = r.returncode
    if rc == 1 and not viol:
        rc = 3
    return rc, msg, r.stderr[-300:]


def cmd_import(argv):
    out, k, name, prop = argv[:4]
    needs = argv[argv.index('--needs') + 1] if '--needs' in argv else ''
    patch = os.path.join(out, f'patch{k}.diff')
    dem = os.path.join(out, f'demo{k}.py')
    notes = os.path.join(out, f'notes{k}.md')
    clean, pat = scratch(), scratch()
    try:
        ok, msg = apply(pat, os.path.abspath(patch))
        if not ok:
            print('PATCH DOES NOT APPLY:', msg)
            return 1
        rc0, o0 = demo(clean, os.path.abspath(dem))
        rc1, o1 = demo(pat, os.path.abspath(dem))
        s = run(f'/venv/bin/python {HERE}/tools/baseline.py {pat}')
        print(f'demo clean exit={rc0}  patched exit={rc1}  suite: {s.stdout.strip().splitlines()[0] if s.stdout else s.stderr[-200:]}')
        if rc0 != 0 or rc1 == 0 or s.returncode != 0:
            print('NOT CONFIRMED', o0 if rc0 else '', o1[-300:])
            return 1
        dst = os.path.join(SEEDED, name)
        os.makedirs(dst, exist_ok=True)
        shutil.copy(patch, os.path.join(dst, 'patch.diff'))
        shutil.copy(dem, os.path.join(dst, 'demo.py'))
        if os.path.exists(notes):
            shutil.copy(notes, os.path.join(dst, 'notes.md'))
        meta = {
            'name': name, 'breaks_property': prop, 'needs_to_manifest': needs,
            'origin': 'independent sub-agent given only the property text and a scratch worktree',
            'confirmed': {'patch_applies_to_repo_head': run('git -C /repo rev-parse --short HEAD').stdout.strip(),
                          'demo_exit_clean': rc0, 'demo_exit_patched': rc1, 'demo_output_patched': o1.strip()[-300:],
                          'pinned_suite_unchanged': True},
            'what_i_ran': ['git archive HEAD | tar -x (clean and patched scratch copies under /tmp)', 'git apply patch.diff',
                           'python demo.py <copy> on both copies', 'tools/baseline.py <patched copy> (1017 stable_pass tests must still pass)'],
            'detected_by': {},
        }
        json.dump(meta, open(os.path.join(dst, 'meta.json'), 'w'), indent=1)
        print('filed', dst)
        return 0
    finally:
        shutil.rmtree(clean, ignore_errors=True)
        shutil.rmtree(pat, ignore_errors=True)


def keep_corpus(d, pid, name):
    """the shrunk failing case of a caught change joins the seconds-long replay corpus (if it passes on the unchanged tree)"""
    import glob
    found = sorted(glob.glob(os.path.join(d, '.found', f'{pid}-*.json')))
    if not found:
        return
    dst = os.path.join(HERE, 'replays', 'corpus')
    os.makedirs(dst, exist_ok=True)
    seen = set()
    for f in found:
        r = json.load(open(f))
        if r['check'] in seen:
            continue
        seen.add(r['check'])
        out = os.path.join(dst, f'{pid}-{r["check"]}-from-{name}.json')
        if os.path.exists(out) or os.environ.get('VERIF_NO_SHRINK'):
            continue  # keep the shrunk case saved earlier; unshrunk cases do not enter the corpus
        r['origin'] = f'shrunk case with which sub-check {r["check"]} exposed seeded change {name}'
        json.dump(r, open(out, 'w'), indent=1)
        ok = run(f'VERIF_EVIDENCE_DIR={d}/.ev {HERE}/check {pid} --replay {out}', cwd=HERE)
        if ok.returncode != 0:
            os.remove(out)


RELATED = {
    'envs/transition_functions.py': ['C01', 'C08', 'C09', 'C10', 'C11'],
    'grid.py': ['C03', 'C05', 'C07', 'C18'],
    'grid_object.py': ['C08', 'C10', 'C16', 'C03'],
    'envs/observation_functions.py': ['C05', 'C06', 'C07', 'C03'],
    'envs/visibility_functions.py': ['C06', 'C05', 'C02'],
    'envs/reset_functions.py': ['C13', 'C14', 'C02'],
    'envs/reward_functions.py': ['C12', 'C01', 'C03'],
    'envs/terminating_functions.py': ['C12', 'C01'],
    'representations/': ['C15', 'C16', 'C20'],
    'gym.py': ['C20', 'C15', 'C17'],
    'outer_env.py': ['C04', 'C20', 'C15'],
    'envs/inner_env.py': ['C04', 'C20', 'C02'],
    'envs/gridworld.py': ['C01', 'C02', 'C04', 'C12'],
    'envs/yaml/': ['C17', 'C20'],
    'utils/functions.py': ['C17', 'C12'],
    'geometry.py': ['C18', 'C05', 'C07', 'C08'],
    'utils/raytracing.py': ['C19', 'C06'],
    'spaces.py': ['C01', 'C15', 'C20'],
    'rng.py': ['C13', 'C02', 'C14'],
    'utils/fast_copy.py': ['C03', 'C09', 'C01'],
    'envs/utils.py': ['C08', 'C18', 'C12'],
}


def related_props(name, own):
    files = [l[6:].strip() for l in open(os.path.join(SEEDED, name, 'patch.diff')) if l.startswith('+++ b/')]
    out = []
    for f in files:
        for k, ps in RELATED.items():
            if k in f:
                out += [p for p in ps if p != own and p not in out]
    return out


def cmd_run(argv):
    tier = argv[argv.index('--tier') + 1] if '--tier' in argv else 'quick'
    props = argv[argv.index('--props') + 1].split(',') if '--props' in argv else None
    skip = set()
    for flag in ('--tier', '--props'):
        if flag in argv:
            i = argv.index(flag)
            skip |= {i, i + 1}
    subs = [a for i, a in enumerate(argv) if i not in skip and a != '--related']
    for name in sorted(os.listdir(SEEDED)):
        if subs and not any(s in name for s in subs):
            continue
        mp = os.path.join(SEEDED, name, 'meta.json')
        if not os.path.isfile(mp):
            continue
        meta = json.load(open(mp))
        d = scratch()
        try:
            ok, msg = apply(d, os.path.join(SEEDED, name, 'patch.diff'))
            if not ok:
                print(f'{name}: patch no longer applies: {msg[:200]}')
                continue
            line = f'{name}:'
            related = '--related' in argv
            for pid in props or ([meta['breaks_property']] if not related else related_props(name, meta['breaks_property'])):
                rc, m, err = check(d, pid, tier)
                verdict = 'CAUGHT' if rc == 1 else f'MISSED(exit {rc})'
                if rc == 1 and pid == meta['breaks_property']:
                    keep_corpus(d, pid, name)
                meta['detected_by'][f'{pid}:{tier}'] = {'verdict': verdict, 'message': (m[0][:300] if m else '')}
                line += f' {pid}={verdict}' + (f' ({m[0][:140]})' if rc == 1 and m else '') + (f' ERR {err}' if rc == 2 else '')
            print(line, flush=True)
            json.dump(meta, open(mp, 'w'), indent=1)
        finally:
            shutil.rmtree(d, ignore_errors=True)
    return 0


if __name__ == '__main__':
    if len(sys.argv) < 2 or sys.argv[1] not in ('import', 'run'):
        print(__doc__)
        sys.exit(2)
    sys.exit(cmd_import(sys.argv[2:]) if sys.argv[1] == 'import' else cmd_run(sys.argv[2:]))
