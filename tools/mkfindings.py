#!/usr/bin/env python3
"""Regenerates known_findings.json (commit hashes looked up from /repo's fix: commits)."""
import json, os, subprocess
HERE = os.path.dirname(os.path.dirname(os.path.abspath(__file__)))
log = subprocess.check_output(['git', '-C', '/repo', 'log', '--format=%h %s']).decode().splitlines()
F = []

def fixed(fid, props, kw, what, reg):
    c = [l.split()[0] for l in log if l.split(' ', 1)[1].startswith('fix:') and kw in l]
    assert len(c) == 1, (fid, kw, c)
    F.append({'id': fid, 'status': 'fixed', 'properties': props, 'commit': c[0], 'what': what, 'regressions': reg,
              'lines': [f'fixed: property={p} {c[0]} {what}' for p in props]})

def open_(fid, props, match, what, reg):
    F.append({'id': fid, 'status': 'open', 'properties': props, 'match': match, 'what': what, 'regressions': reg})

fixed('D1', ['C01', 'C08'], 'move_agent', 'move_agent looked the target cell up with a negative index at the top/left edge (wraps): agent placed at (-1,x)/(y,-1), outside grid and state space', ['C01-D1-move_agent-wraps-at-top-left-edge.json'])
fixed('D2', ['C01', 'C09'], 'pickndrop', 'transition pickndrop indexed the front cell unguarded: IndexError facing the bottom/right edge, pick/drop on the opposite edge when facing the top/left edge', ['C01-D2-pickndrop-front-cell-unguarded.json'])
fixed('D4', ['C01', 'C12'], 'reward actuate_door', 'reward actuate_door indexed the front cell unguarded: IndexError on ACTUATE facing the bottom/right edge', ['C01-D4-reward-actuate_door-front-cell-unguarded.json'])
fixed('D3', ['C01', 'C11'], 'teleport leaves', 'transition teleport on a telepod without same-colour partner called rng.choice(0): ValueError', ['C01-D3-teleport-unpaired-telepod.json'])
fixed('D5', ['C13'], 'empty(random_exit', 'reset empty(random_exit=True, random_agent=False) could sample the exit at (1,1), under the agent', ['C13-D5-empty-random-exit-under-fixed-agent.json'])
fixed('D8', ['C14'], 'rooms and memory_rooms reject', 'rooms/memory_rooms accepted layouts with adjacent wall splits (rooms without interior): isolated passage cells, agent and exit disconnected, unwinnable', ['C14-D8-rooms-degenerate-layout-disconnected.json'])
fixed('D7', ['C02'], 'process-independent order', 'memory/memory_rooms did list(colors) on a set of Color enums: iteration order depends on PYTHONHASHSEED, so a seeded episode differed between interpreter processes', ['C02-D7-memory-colour-order-depends-on-hash-seed.json'])
fixed('D9', ['C06'], 'stochastic_raytracing never reveals', 'stochastic_raytracing sampled visibility as random() <= probs: a draw of exactly 0.0 (a legal outcome of Generator.random) revealed cells that no ray reaches lit', ['C06-D9-stochastic-raytracing-zero-draw-reveals-dark-cells.json'])
open_('D6', ['C14'], {'kind': 'unwinnable', 'fn': 'memory_rooms', 'cause': 'nonmatching_exit_on_every_path'},
      'memory_rooms can place a non-matching exit on every path between the agent and the matching exit (e.g. on the passage cell of a wall); every exit terminates the episode, so the rewarded goal is unreachable although the grid itself is connected (e.g. memory_rooms(Shape(4,7), (1,2), {RED,GREEN}, 1, 2) seed 1; about 1.5% of seeds for the shipped 7x7 four-room parameters)',
      ['C14-D6-memory_rooms-nonmatching-exit-on-cut-cell.json'])
EXTRA = os.path.join(HERE, 'tools', 'findings_extra.py')
if os.path.exists(EXTRA):
    exec(open(EXTRA).read())
json.dump({'_doc': 'Genuine defects found by the checks. status "open": recorded, suppresses exactly the failures whose oracle signature contains every key/value of "match"; status "fixed": repaired by the named fix: commit in /repo, suppresses nothing (its regression replay must pass). Read-only at run time; regenerate with tools/mkfindings.py.',
           'findings': F}, open(os.path.join(HERE, 'known_findings.json'), 'w'), indent=1)
print(len(F), 'findings')
