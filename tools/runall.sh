#!/bin/sh
# runs every check's quick (or $1) tier on /repo, then validates MANIFEST and evidence files
cd "$(dirname "$0")/.." || exit 2
TIER="${1:-quick}"
rc=0
for id in C01 C02 C03 C04 C05 C06 C07 C08 C09 C10 C11 C12 C13 C14 C15 C16 C17 C18 C19 C20; do
  s=$(date +%s)
  out=$(./check $id $TIER 2>/dev/null); e=$?
  echo "$id exit=$e $(($(date +%s)-s))s $(echo "$out" | grep -E "^$id " | cut -c1-120)"
  echo "$out" | grep -E "^VIOLATION|^KNOWN-FINDING" | cut -c1-160
  [ $e -ne 0 ] && rc=1
done
python3-vt - <<'PY'
import json, jsonschema, glob
m = json.load(open('MANIFEST.json'))
jsonschema.validate(m, json.load(open('/root/.vp/MANIFEST.schema.json')))
sch = json.load(open('/root/.vp/EVIDENCE.schema.json'))
for c in m['checks']:
    jsonschema.validate(json.load(open(c['evidence_file'])), sch)
print('manifest + %d evidence files valid' % len(m['checks']))
PY
exit $rc
