#!/usr/bin/env python3
"""False-alarm protocol: behaviour-preserving rewrites of the repository (the listed properties still hold by
construction) are applied to a scratch copy; every named quick check must stay quiet (exit 0).  A VIOLATION here is a
false alarm of the machinery.   usage: benign.py [name-substring ...]"""
import os
import shutil
import subprocess
import sys
import tempfile

HERE = os.path.dirname(os.path.dirname(os.path.abspath(__file__)))
G = 'gym_gridverse/'
ALL = [f'C{i:02d}' for i in range(1, 21)]

# name, file, old, new, checks to run
BENIGN = [
    ('fast_copy_via_deepcopy', G + 'utils/fast_copy.py', "    return pickle.loads(pickle.dumps(x))", "    import copy\n    return copy.deepcopy(x)", ['C01', 'C03', 'C04', 'C08', 'C09', 'C10', 'C12', 'C16']),
    ('move_agent_try_except_with_contains', G + 'envs/transition_functions.py',
     "    if not state.grid.area.contains(next_position):\n        return\n\n    obj = state.grid[next_position]\n    if not obj.blocks_movement:\n        state.agent.position = next_position",
     "    inside = 0 <= next_position.y < state.grid.shape.height and 0 <= next_position.x < state.grid.shape.width\n    obj = state.grid[next_position] if inside else None\n    if obj is not None and not obj.blocks_movement:\n        state.agent.position = next_position",
     ['C01', 'C08', 'C09', 'C14']),
    ('observation_cells_are_copies', G + 'envs/observation_functions.py',
     "    observation_grid = state.grid.subgrid(pov_area) * state.agent.orientation\n",
     "    from gym_gridverse.utils.fast_copy import fast_copy\n    observation_grid = fast_copy(state.grid.subgrid(pov_area)) * state.agent.orientation\n",
     ['C01', 'C03', 'C04', 'C05', 'C06', 'C07', 'C15', 'C20']),
    ('observation_property_returns_equal_copy', G + 'envs/inner_env.py',
     "        return self._observation\n", "        from gym_gridverse.utils.fast_copy import fast_copy\n        return fast_copy(self._observation)\n", ['C01', 'C02', 'C04', 'C20']),
    ('rotate_forward_copies_rows', G + 'grid.py', "def _rotate_matrix_forward(data):\n    return data", "def _rotate_matrix_forward(data):\n    return [list(row) for row in data]", ['C03', 'C05', 'C07', 'C18']),
    ('rays_finer_step', G + 'utils/raytracing.py', "step_size=0.01)", "step_size=0.005)", ['C06', 'C19'], 2),
    ('step_info_has_extra_entry', G + 'gym.py', "        return self.observation, reward, done, {}", "        return self.observation, reward, done, {'steps': 1}", ['C15', 'C20']),
    ('reward_sum_with_math_fsum', G + 'envs/reward_functions.py', "        reduction=sum,", "        reduction=lambda xs: float(__import__('math').fsum(xs)),", ['C01', 'C12', 'C17']),
    ('teleport_sorted_partner_list', G + 'envs/transition_functions.py', "        if positions:\n            i = rng.choice(len(positions))", "        positions = sorted(positions, key=lambda p: (-p.y, -p.x))\n        if positions:\n            i = rng.choice(len(positions))", ['C01', 'C08', 'C11']),
    ('obstacles_neighbour_order_reversed', G + 'envs/transition_functions.py', "            for next_position in get_manhattan_boundary(position, distance=1)\n", "            for next_position in get_manhattan_boundary(position, distance=1)[::-1]\n", ['C09', 'C11']),
    ('outer_env_returns_array_copies', G + 'outer_env.py', "        return self.observation_representation.convert(\n            self.inner_env.observation\n        )", "        return {k: v.copy() for k, v in self.observation_representation.convert(\n            self.inner_env.observation\n        ).items()}", ['C04', 'C15', 'C20']),
    ('state_space_contains_explicit_bounds', G + 'spaces.py', "            and state.grid.area.contains(state.agent.position)", "            and 0 <= state.agent.position.y < self.grid_shape.height\n            and 0 <= state.agent.position.x < self.grid_shape.width", ['C01']),
    ('door_flags_as_plain_methods', G + 'grid_object.py', "    @property\n    def blocks_movement(self) -> bool:\n        return not self.is_open", "    @property\n    def blocks_movement(self) -> bool:\n        return self.state is not Door.Status.OPEN", ['C08', 'C10']),
    ('select_kwargs_as_loop', G + 'utils/functions.py', "    return {key: value for key, value in kwargs.items() if key in keys}", "    out = {}\n    for key in kwargs:\n        if key in keys:\n            out[key] = kwargs[key]\n    return out", ['C12', 'C17']),
    ('transition_copy_shares_stateless_objects', G + 'envs/transition_functions.py', "    next_state = fast_copy(state)\n    transition_function(next_state, action, rng=rng)",
     "    from gym_gridverse.grid import Grid\n    objects = [[obj if not vars(obj) else fast_copy(obj) for obj in row] for row in state.grid.objects]\n    next_state = State(Grid(objects), fast_copy(state.agent))\n    transition_function(next_state, action, rng=rng)",
     ['C01', 'C03', 'C08', 'C09', 'C10', 'C11', 'C16']),
    ('compact_maps_as_int64', G + 'representations/state_representations.py', "        self._grid_object_type_map = -np.ones(shape, int)", "        self._grid_object_type_map = -np.ones(shape, np.int64)", ['C15', 'C16']),
]


def run(cmd, **kw):
    return subprocess.run(cmd, shell=True, capture_output=True, text=True, **kw)


EXT = os.path.join(HERE, 'benign')


def scratch():
    d = tempfile.mkdtemp(prefix='gvben_', dir='/tmp')
    run(f'git -C /repo archive HEAD | tar -x -C {d}')
    return d


def ext_import(argv):
    """benign.py ext-import <outdir> <k> <name>: confirm an externally written behaviour-preserving refactoring and file it"""
    import json
    out, k, name = argv[:3]
    patch, equiv, notes = (os.path.join(out, f'{x}{k}.{e}') for x, e in (('patch', 'diff'), ('equiv', 'py'), ('notes', 'md')))
    clean, pat = scratch(), scratch()
    try:
        r = run(f'patch -p1 -s < {os.path.abspath(patch)}', cwd=pat)
        if r.returncode:
            print('PATCH DOES NOT APPLY', r.stdout, r.stderr)
            return 1
        d0 = run(f'cd {clean} && PYTHONHASHSEED=0 PYTHONPATH={clean} /venv/bin/python -W ignore {os.path.abspath(equiv)} {clean}', timeout=1200)
        d1 = run(f'cd {pat} && PYTHONHASHSEED=0 PYTHONPATH={pat} /venv/bin/python -W ignore {os.path.abspath(equiv)} {pat}', timeout=1200)
        suite = run(f'/venv/bin/python {HERE}/tools/baseline.py {pat}')
        same = d0.returncode == 0 and d1.returncode == 0 and d0.stdout.strip().splitlines()[-1:] == d1.stdout.strip().splitlines()[-1:]
        print(f'equiv clean exit={d0.returncode} patched exit={d1.returncode} same_digest={same} suite={"ok" if suite.returncode == 0 else "CHANGED"}')
        if not same or suite.returncode:
            print('NOT CONFIRMED', d0.stdout[-200:], d1.stdout[-200:], d1.stderr[-300:])
            return 1
        dst = os.path.join(EXT, name)
        os.makedirs(dst, exist_ok=True)
        shutil.copy(patch, os.path.join(dst, 'patch.diff'))
        shutil.copy(equiv, os.path.join(dst, 'equiv.py'))
        if os.path.exists(notes):
            shutil.copy(notes, os.path.join(dst, 'notes.md'))
        json.dump({'name': name, 'origin': 'independent sub-agent asked for a behaviour-preserving refactoring (given only a property text and a scratch worktree)',
                   'confirmed': {'equivalence_digest': (d0.stdout.strip().splitlines() or [''])[-1][:80], 'pinned_suite_unchanged': True}, 'checks': {}},
                  open(os.path.join(dst, 'meta.json'), 'w'), indent=1)
        print('filed', dst)
        return 0
    finally:
        shutil.rmtree(clean, ignore_errors=True)
        shutil.rmtree(pat, ignore_errors=True)


def ext_run(argv):
    """benign.py ext-run [name-substring ...] [--all]: every related (or every) quick check must stay quiet on each filed refactoring"""
    import json
    sys.path.insert(0, os.path.join(HERE, 'tools'))
    import seeded
    every = '--all' in argv
    subs = [a for a in argv if a != '--all']
    bad = 0
    for name in sorted(os.listdir(EXT)) if os.path.isdir(EXT) else []:
        if subs and not any(x in name for x in subs):
            continue
        mp = os.path.join(EXT, name, 'meta.json')
        meta = json.load(open(mp))
        d = scratch()
        try:
            r = run(f'patch -p1 -s < {os.path.join(EXT, name, "patch.diff")}', cwd=d)
            if r.returncode:
                print(f'{name}: patch no longer applies')
                continue
            files = [l[6:].strip() for l in open(os.path.join(EXT, name, 'patch.diff')) if l.startswith('+++ b/')]
            props = ALL if every else sorted({p for f in files for k, ps in seeded.RELATED.items() if k in f for p in ps} | {name[:3]})
            line = f'{name}:'
            for pid in props:
                rr = run(f'VERIF_REPO={d} VERIF_NO_SHRINK=1 VERIF_EVIDENCE_DIR={d}/.ev VERIF_FOUND_DIR={d}/.found {HERE}/check {pid} quick', cwd=HERE)
                msg = [l for l in rr.stdout.splitlines() if l.startswith('[') or l.startswith('regression')]
                meta['checks'][pid] = 'quiet' if rr.returncode == 0 else f'ALARM exit {rr.returncode}: {(msg or [rr.stderr[-200:]])[0][:200]}'
                line += f' {pid}={"quiet" if rr.returncode == 0 else "ALARM " + (msg or [rr.stderr[-160:]])[0][:160]}'
                bad += rr.returncode != 0
            print(line, flush=True)
            json.dump(meta, open(mp, 'w'), indent=1)
        finally:
            shutil.rmtree(d, ignore_errors=True)
    return 1 if bad else 0


def main(argv):
    if argv and argv[0] == 'ext-import':
        return ext_import(argv[1:])
    if argv and argv[0] == 'ext-run':
        return ext_run(argv[1:])
    bad = 0
    for entry in BENIGN:
        name, fn, old, new, props = entry[:5]
        want = entry[5] if len(entry) > 5 else 1
        if argv and not any(a in name for a in argv):
            continue
        d = tempfile.mkdtemp(prefix='gvben_', dir='/tmp')
        try:
            run(f'git -C /repo archive HEAD | tar -x -C {d}')
            p = os.path.join(d, fn)
            s = open(p).read()
            if s.count(old) != want:
                print(f'{name}: pattern occurs {s.count(old)} times -- skipped')
                continue
            open(p, 'w').write(s.replace(old, new))
            suite = run(f'/venv/bin/python {HERE}/tools/baseline.py {d}')
            line = f'{name}: suite={"ok" if suite.returncode == 0 else "CHANGED"}'
            for pid in props:
                r = run(f'VERIF_REPO={d} VERIF_EVIDENCE_DIR={d}/.ev VERIF_FOUND_DIR={d}/.found {HERE}/check {pid} quick', cwd=HERE)
                if r.returncode != 0:
                    bad += 1
                    msg = [l for l in r.stdout.splitlines() if l.startswith('[') or l.startswith('regression')]
                    line += f' {pid}=ALARM(exit {r.returncode}) {(msg or [r.stderr[-200:]])[0][:160]}'
                else:
                    line += f' {pid}=quiet'
            print(line, flush=True)
        finally:
            shutil.rmtree(d, ignore_errors=True)
    return 1 if bad else 0


if __name__ == '__main__':
    sys.exit(main(sys.argv[1:]))
