"""Configuration data trees: the shipped files and *valid perturbations* of them
(non-square shapes, other counts, colour subsets, action sub-lists in other orders,
extra/permuted transitions, other observation functions and areas, scaled rewards).
A perturbation is a small JSON value (`mods`) applied to a deep copy of a shipped tree,
so cases stay serialisable and replayable."""
import copy

from hypothesis import strategies as st

from vgv import envs
from vgv.objs import ACTIONS

OBS = ['fully_transparent', 'partially_occluded', 'raytracing', 'stochastic_raytracing']
REAL = ['RED', 'GREEN', 'BLUE', 'YELLOW']


@st.composite
def reset_mod_s(draw, name):
    """valid parameter overrides for the reset function `name` (families the functions document as valid)"""
    if name == 'empty':
        return {'shape': [draw(st.integers(4, 8)), draw(st.integers(4, 8))], 'random_agent': draw(st.booleans()), 'random_exit': draw(st.booleans())}
    if name == 'dynamic_obstacles':
        h, w = draw(st.integers(4, 8)), draw(st.integers(4, 8))
        return {'shape': [h, w], 'num_obstacles': draw(st.integers(0, min(5, (h - 2) * (w - 2) - 2))), 'random_agent': draw(st.booleans())}
    if name == 'keydoor':
        return {'shape': [draw(st.integers(4, 9)), draw(st.integers(5, 9))]}
    if name == 'crossing':
        return {'shape': [draw(st.sampled_from([5, 7, 9])), draw(st.sampled_from([5, 7, 9]))], 'num_rivers': draw(st.integers(1, 4))}
    if name == 'teleport':
        return {'shape': [draw(st.integers(4, 8)), draw(st.integers(4, 8))]}
    if name == 'memory':
        return {'shape': [draw(st.integers(5, 10)), draw(st.sampled_from([5, 7, 9]))],
                'colors': draw(st.lists(st.sampled_from(REAL), unique=True, min_size=2, max_size=4))}
    if name in ('rooms', 'memory_rooms'):
        lh, lw = draw(st.integers(1, 3)), draw(st.integers(1, 3))
        m = {'shape': [lh * draw(st.integers(2, 4)) + 1, lw * draw(st.integers(2, 4)) + 1], 'layout': [lh, lw]}
        if m['shape'][0] * m['shape'][1] < 20:
            m['shape'] = [max(m['shape'][0], 5), max(m['shape'][1], 5)]
            m['layout'] = [1, 1]
        if name == 'memory_rooms':
            cs = draw(st.lists(st.sampled_from(REAL), unique=True, min_size=2, max_size=4))
            m.update({'colors': cs, 'num_beacons': draw(st.integers(1, 2)), 'num_exits': draw(st.integers(2, len(cs)))})
        from vgv.props import c13
        if not c13.honourable(name, m):
            # not enough floor cells for the inventory: fall back to the shipped four-room family
            m.update({'shape': [7, 7], 'layout': [2, 2]})
            if name == 'memory_rooms':
                m.update({'num_beacons': 1, 'num_exits': 2})
        return m
    return {}


@st.composite
def mods_s(draw, base, stochastic_bias=False):
    data = envs.shipped_data(base)
    custom = any(':' in str(v) for v in [data['reset_function']['name']])
    mods = {}
    k = draw(st.integers(0, 3))
    if stochastic_bias or k == 0:
        mods['obs'] = draw(st.sampled_from(OBS if not stochastic_bias else ['stochastic_raytracing', 'stochastic_raytracing', 'raytracing', 'partially_occluded']))
    if draw(st.integers(0, 3)) == 0:
        # the generic observation function with a nested visibility-function entry
        vis = {'name': draw(st.sampled_from(['fully_transparent', 'partially_occluded', 'raytracing', 'raytracing', 'raytracing', 'stochastic_raytracing']))}
        if vis['name'] == 'raytracing' and draw(st.integers(0, 3)) > 0:
            absolute = draw(st.integers(0, 2)) == 0
            extra = {'absolute_counts': absolute, 'threshold': draw(st.sampled_from([1, 2, 3] if absolute else [0.25, 0.5, 0.75, 1.0]))}
            if draw(st.booleans()):
                extra = dict(reversed(list(extra.items())))       # a mapping lists its keys in any order
            vis.update(extra)
        mods['obs'] = 'from_visibility'
        mods['vis'] = vis
    if draw(st.integers(0, 2)) == 0:
        mods['area'] = [[-draw(st.integers(1, 6)), 0], [0, 0]]
        m = draw(st.integers(0, 3))
        mods['area'][1] = [-m, m]
    if draw(st.integers(0, 2)) == 0:
        mods['actions'] = draw(st.lists(st.sampled_from(ACTIONS), unique=True, min_size=2))
    if draw(st.integers(0, 3)) == 0:
        # spaces may declare more than the environment ever produces (same maxima, other index tables)
        have_c = set(data['state_space']['colors']) | set(data['observation_space']['colors'])
        have_o = set(data['state_space']['objects']) | set(data['observation_space']['objects'])
        more_c = [c for c in ['RED', 'GREEN', 'BLUE', 'YELLOW'] if c not in have_c]
        more_o = [t for t in ['Floor', 'Wall', 'Exit', 'Door', 'Key', 'MovingObstacle', 'Telepod', 'Beacon'] if t not in have_o]
        if more_c:
            mods['more_colors'] = draw(st.lists(st.sampled_from(more_c), unique=True, min_size=1))
        if more_o and draw(st.booleans()):
            mods['more_objects'] = draw(st.lists(st.sampled_from(more_o), unique=True, min_size=1, max_size=3))
    if not custom:
        if draw(st.integers(0, 1)) == 0 or stochastic_bias:
            mods['reset'] = draw(reset_mod_s(data['reset_function']['name']))
        extra = draw(st.lists(st.sampled_from(['move_obstacles', 'teleport', 'pickndrop', 'actuate_door', 'actuate_box']), unique=True, max_size=2))
        if extra:
            mods['extra_transitions'] = extra
        if draw(st.integers(0, 3)) == 0:
            mods['reverse_transitions'] = True
        if draw(st.integers(0, 3)) == 0:
            mods['reward_scale'] = draw(st.sampled_from([0.5, 2.0, -1.0, 3.0]))
        if draw(st.integers(0, 3)) == 0:
            # the terminating function nested inside reductions, next to a wall-bump child that carries a parameter only its reward
            # namesake knows (parameters a component does not accept are ignored)
            mods['nest_term'] = draw(st.sampled_from(['any_of_all', 'all_of_any', 'any_with_extra_parameter']))
    return mods


def apply(base, mods):
    """the perturbed data tree (fresh deep copy)"""
    data = envs.shipped_data(base)
    if 'obs' in mods:
        data['observation_function']['name'] = mods['obs']
    if 'vis' in mods:
        data['observation_function']['visibility_function'] = copy.deepcopy(mods['vis'])
    if 'area' in mods:
        data['observation_function']['area'] = copy.deepcopy(mods['area'])
    if 'actions' in mods:
        data['action_space'] = list(mods['actions'])
    for sp in ('state_space', 'observation_space'):
        for c in mods.get('more_colors', []):
            if c not in data[sp]['colors']:
                data[sp]['colors'].append(c)
        for t in mods.get('more_objects', []):
            if t not in data[sp]['objects']:
                data[sp]['objects'].append(t)
    if 'reset' in mods:
        data['reset_function'].update(copy.deepcopy(mods['reset']))
    have = [t['name'] for t in data['transition_functions']]
    for t in mods.get('extra_transitions', []):
        if t not in have:
            data['transition_functions'].append({'name': t})
    if mods.get('reverse_transitions'):
        data['transition_functions'] = data['transition_functions'][::-1]
    if 'nest_term' in mods:
        orig = data['terminating_function']
        if mods['nest_term'] == 'any_of_all':
            data['terminating_function'] = {'name': 'reduce_any', 'terminating_functions': [{'name': 'reduce_all', 'terminating_functions': [copy.deepcopy(orig), copy.deepcopy(orig)]}]}
        elif mods['nest_term'] == 'all_of_any':
            data['terminating_function'] = {'name': 'reduce_all', 'terminating_functions': [{'name': 'reduce_any', 'terminating_functions': [copy.deepcopy(orig), {'name': 'bump_into_wall'}]}, copy.deepcopy(orig)]}
        else:
            data['terminating_function'] = {'name': 'reduce_any', 'terminating_functions': [copy.deepcopy(orig), {'name': 'bump_into_wall', 'reward': 0.0}]}
    if 'reward_scale' in mods:
        for r in data['reward_functions']:
            for k, v in list(r.items()):
                if isinstance(v, float):
                    r[k] = v * mods['reward_scale']
    return data


@st.composite
def config_s(draw, stochastic_bias=False, names=None):
    """{'base': shipped file name, 'mods': {...}}; empty mods = the shipped configuration itself"""
    base = draw(st.sampled_from(names or envs.shipped_names()))
    if draw(st.integers(0, 2)) == 0 and not stochastic_bias:
        return {'base': base, 'mods': {}}
    return {'base': base, 'mods': draw(mods_s(base, stochastic_bias))}


def data_of(cfg):
    return apply(cfg['base'], cfg['mods'])


def build(cfg, seed=None):
    env = envs.build_from_data(data_of(cfg))
    if seed is not None:
        env.set_seed(seed)
    return env
