"""Hypothesis strategies producing descriptors (see objs.py).  Sound first: only inputs
the code is documented to accept; corner shapes are produced by construction and
measured by the checks (class labels)."""
from hypothesis import strategies as st

from vgv import model as M
from vgv.objs import ACTIONS, COLORS, HEADINGS, STATUSES, obj_type

GRID_TYPES = ['Floor', 'Wall', 'Exit', 'Door', 'Key', 'MovingObstacle', 'Box', 'Telepod', 'Beacon']
REAL_COLORS = COLORS[1:]

action_s = st.sampled_from(ACTIONS)
heading_s = st.sampled_from(HEADINGS)
seed_s = st.integers(0, 2**32 - 1)


def space_s(must=('Floor',), max_types=None, allow_box=True):
    """a declared space: non-empty type subset (containing `must`) and a colour subset (NONE implied).
    Each type is in or out by its own coin so that rich spaces are common; the full space is a frequent special case."""
    pool = [t for t in GRID_TYPES if (allow_box or t != 'Box')]

    def mk(bits, cbits):
        types = [t for t, b in zip(pool, bits) if b or t in must]
        if max_types is not None:
            types = types[:max_types]
        if types == ['Box']:
            types = ['Floor', 'Box']  # a box needs a declared content type
        return {'types': types, 'colors': ['NONE'] + [c for c, b in zip(REAL_COLORS, cbits) if b]}

    bits = st.one_of(st.just([True] * len(pool)), st.lists(st.booleans(), min_size=len(pool), max_size=len(pool)))
    cbits = st.one_of(st.just([True] * 4), st.lists(st.booleans(), min_size=4, max_size=4))
    return st.builds(mk, bits, cbits)


def obj_s(space, depth=2, exclude=(), beacon_color=None, floor_weight=0):
    """object of a declared type/colour.  Box contents are declared types too (depth-bounded)."""
    types = [t for t in space['types'] if t not in exclude]
    colors = space['colors']
    real = [c for c in colors if c != 'NONE'] or ['NONE']
    any_col = st.sampled_from(colors)
    opts = []
    for t in types:
        if t == 'Floor':
            opts.append(st.just('F'))
        elif t == 'Wall':
            opts.append(st.just('W'))
        elif t == 'MovingObstacle':
            opts.append(st.just('M'))
        elif t == 'Exit':
            opts.append(any_col.map(lambda c: f'E:{c}'))
        elif t == 'Key':
            opts.append(any_col.map(lambda c: f'K:{c}'))
        elif t == 'Telepod':
            opts.append(any_col.map(lambda c: f'T:{c}'))
        elif t == 'Beacon':
            if beacon_color is not None:
                opts.append(st.just(f'N:{beacon_color}'))
            else:
                opts.append(any_col.map(lambda c: f'N:{c}'))
        elif t == 'Door':
            opts.append(st.tuples(st.sampled_from(STATUSES), any_col).map(lambda a: f'D:{a[0]}:{a[1]}'))
        elif t == 'Box':
            if depth > 0:
                inner_types = [u for u in types if u != 'Box' or depth > 1]
                if inner_types:
                    inner = obj_s({'types': inner_types, 'colors': colors}, depth - 1, (), beacon_color)
                    opts.append(inner.map(lambda c: f'B({c})'))
    if not opts:
        return st.just('F')
    s = st.one_of(opts)
    if floor_weight and 'Floor' in types:
        s = st.one_of([st.just('F')] * floor_weight + [s])
    return s


@st.composite
def agent_pos_s(draw, h, w):
    """position by class (corner / edge / interior / any) and heading biased to face outward on edges"""
    cls = draw(st.sampled_from(['interior', 'interior', 'interior', 'edge', 'edge', 'corner', 'any', 'any']))
    if cls == 'corner':
        y, x = draw(st.sampled_from([0, h - 1])), draw(st.sampled_from([0, w - 1]))
    elif cls == 'edge':
        if draw(st.booleans()):
            y, x = draw(st.sampled_from([0, h - 1])), draw(st.integers(0, w - 1))
        else:
            y, x = draw(st.integers(0, h - 1)), draw(st.sampled_from([0, w - 1]))
    elif cls == 'interior' and h > 2 and w > 2:
        y, x = draw(st.integers(1, h - 2)), draw(st.integers(1, w - 2))
    else:
        y, x = draw(st.integers(0, h - 1)), draw(st.integers(0, w - 1))
    outward = []
    if y == 0:
        outward.append('F')
    if y == h - 1:
        outward.append('B')
    if x == 0:
        outward.append('L')
    if x == w - 1:
        outward.append('R')
    if outward and draw(st.integers(0, 2)) == 0:
        hd = draw(st.sampled_from(outward))
    else:
        hd = draw(heading_s)
    return y, x, hd


@st.composite
def state_s(draw, space, min_hw=1, max_hw=7, valid=False, unique=(), held='any', floor_weight=3, shape=None, depth=2, allow_grow=False):
    """a state built only from declared types and colours (box contents included).

    valid: agent on a non-blocking cell (needs Floor declared).
    unique: type names that must occur exactly once on the grid, never in boxes or in hand.
    """
    if shape is None:
        sizes = [k for k in (1, 2, 3, 3, 4, 4, 5, 5, 6, 7, 8, 9) if min_hw <= k <= max_hw] or [min_hw]
        h = draw(st.sampled_from(sizes))
        w = draw(st.sampled_from(sizes))
    else:
        h, w = shape
    if h * w < len(unique):
        w = len(unique)  # room for every unique object (a documented precondition of the distance rewards)
    bc = draw(st.sampled_from([c for c in space['colors']]))
    cell_s = obj_s(space, depth, exclude=unique, beacon_color=bc, floor_weight=floor_weight)
    grid = [[draw(cell_s) for _ in range(w)] for _ in range(h)]
    y, x, hd = draw(agent_pos_s(h, w))
    if valid and M.blocks_movement(grid[y][x]):
        grid[y][x] = 'F'
    # unique objects: placed on distinct cells
    if unique:
        cells = [(a, b) for a in range(h) for b in range(w)]
        assert len(cells) >= len(unique)
        idx = draw(st.lists(st.integers(0, len(cells) - 1), min_size=len(unique), max_size=len(unique), unique=True))
        for t, i in zip(unique, idx):
            o = draw(obj_s({'types': [t], 'colors': space['colors']}, 0, (), bc))
            grid[cells[i][0]][cells[i][1]] = o
        if valid and M.blocks_movement(grid[y][x]):
            # (unique types offered by the generators never block, but keep the invariant explicit)
            grid[y][x] = 'F'
    if held == 'none':
        item = '_'
    else:
        k = draw(st.integers(0, 9))
        if k < 4:
            item = '_'
        elif k < 8 and 'Key' in space['types'] and 'Key' not in unique:
            item = draw(obj_s({'types': ['Key'], 'colors': space['colors']}, 0))
        else:
            item = draw(obj_s(space, 1, exclude=tuple(unique), beacon_color=bc))
    d = {'grid': grid, 'agent': [y, x, hd, item]}
    if allow_grow and not unique and shape is None and draw(st.integers(0, 15)) == 0:
        # a large world tiled from the small one (dimension 40..300, around the 127/128 and 255/256 boundaries); the agent is moved by
        # whole tiles, so it stands on the same kind of cell
        H, W = draw(big_shape_s('state'))
        d = grow(d, H, W)
        if d['agent'][0] == y and d['agent'][1] == x:
            d['agent'][0] = y + h * draw(st.integers(0, (H - 1 - y) // h))
            d['agent'][1] = x + w * draw(st.integers(0, (W - 1 - x) // w))
        elif valid and M.blocks_movement(d['grid'][d['agent'][0]][d['agent'][1]]):
            d['grid'][d['agent'][0]][d['agent'][1]] = 'F'
    return d


def chain_s(pool=M.TRANSITIONS, min_size=1):
    """ordered non-empty sub-list of the built-in transition functions (no repeats)"""
    return st.lists(st.sampled_from(list(pool)), min_size=min_size, max_size=len(pool), unique=True)


fin = st.floats(min_value=-100.0, max_value=100.0, allow_nan=False, allow_infinity=False, width=64) | st.sampled_from([0.0, 1.0, -1.0, 5.0, -0.05, 0.2])

UNIQUE_OK = ['Exit', 'Beacon', 'Telepod', 'MovingObstacle']  # non-blocking, cannot be created/removed by the dynamics


@st.composite
def reward_spec_s(draw, space, unique_pool=(), allow_memory=False):
    """one built-in reward with generated finite parameters.  Distance rewards only for
    types in unique_pool (the caller guarantees uniqueness in state and next state)."""
    names = ['living_reward', 'overlap', 'reach_exit', 'bump_moving_obstacle', 'bump_into_wall', 'actuate_door', 'pickndrop']
    if unique_pool:
        names += ['proportional_to_distance', 'getting_closer', 'getting_closer_shortest_path'] * 1
    if allow_memory:
        names += ['reach_exit_memory']
    name = draw(st.sampled_from(names))
    spec = {'name': name}

    def maybe(k):
        if draw(st.booleans()):
            spec[k] = draw(fin)

    if name == 'living_reward':
        maybe('reward')
    elif name == 'overlap':
        spec['object_type'] = draw(st.sampled_from(space['types']))
        maybe('reward_on'); maybe('reward_off')
    elif name == 'reach_exit':
        maybe('reward_on'); maybe('reward_off')
    elif name in ('bump_moving_obstacle', 'bump_into_wall'):
        maybe('reward')
    elif name == 'actuate_door':
        maybe('reward_open'); maybe('reward_close')
    elif name == 'pickndrop':
        spec['object_type'] = draw(st.sampled_from(space['types']))
        maybe('reward_pick'); maybe('reward_drop')
    elif name == 'proportional_to_distance':
        spec['object_type'] = draw(st.sampled_from(list(unique_pool)))
        if draw(st.booleans()):
            spec['distance_function'] = draw(st.sampled_from(['manhattan', 'euclidean']))
        maybe('reward_per_unit_distance')
    elif name in ('getting_closer', 'getting_closer_shortest_path'):
        spec['object_type'] = draw(st.sampled_from(list(unique_pool)))
        if name == 'getting_closer' and draw(st.booleans()):
            spec['distance_function'] = draw(st.sampled_from(['manhattan', 'euclidean']))
        maybe('reward_closer'); maybe('reward_further')
    elif name == 'reach_exit_memory':
        maybe('reward_good'); maybe('reward_bad')
    return spec


@st.composite
def term_spec_s(draw, space, depth=1):
    names = ['overlap', 'reach_exit', 'bump_moving_obstacle', 'bump_into_wall']
    if depth > 0:
        names += ['reduce_any', 'reduce_all']
    name = draw(st.sampled_from(names))
    spec = {'name': name}
    if name == 'overlap':
        spec['object_type'] = draw(st.sampled_from(space['types']))
    elif name in ('reduce_any', 'reduce_all'):
        spec['terminating_functions'] = draw(st.lists(term_spec_s(space, depth - 1), min_size=1, max_size=3))
    return spec


OBS_FUNCTIONS = ['fully_transparent', 'partially_occluded', 'raytracing', 'stochastic_raytracing', 'from_visibility']


def view_area(vh, vw):
    """the area ObservationSpace(Shape(vh, vw)) stands for"""
    return [[-(vh - 1), 0], [-(vw // 2), vw // 2]]


@st.composite
def area_s(draw, max_ext=4, ymax_zero=False):
    """view area containing the agent cell (0,0); symmetric or not; includes 1x1"""
    up = draw(st.integers(0, max_ext))
    down = 0 if ymax_zero else draw(st.sampled_from([0, 0, 1, 2, max_ext]))
    left = draw(st.integers(0, max_ext))
    right = left if draw(st.booleans()) else draw(st.integers(0, max_ext))
    return [[-up, down], [-left, right]]


@st.composite
def composition_s(draw, space, chain_pool=M.TRANSITIONS, has_beacon=False, unique_pool=()):
    chain = draw(chain_s(chain_pool))
    rewards = draw(st.lists(reward_spec_s(space, unique_pool, allow_memory=has_beacon), min_size=1, max_size=4))
    term = draw(term_spec_s(space))
    obs = draw(st.sampled_from(OBS_FUNCTIONS[:4]))
    vh = draw(st.integers(1, 7))
    vw = draw(st.sampled_from([1, 3, 5, 7]))
    return {'chain': chain, 'rewards': rewards, 'term': term, 'obs': obs, 'view': [vh, vw]}


@st.composite
def plant_front_s(draw, sd, space, kinds=('Key', 'Box', 'Floor', 'Door')):
    """by construction: put an object of a chosen declared kind in the cell the agent
    faces (if that cell is inside the grid) so that interactions actually happen"""
    f = M.front(sd)
    if not M.in_grid(sd, f):
        return sd
    avail = [k for k in kinds if k in space['types']]
    if not avail:
        return sd
    k = draw(st.sampled_from(avail))
    sd = {'grid': [list(r) for r in sd['grid']], 'agent': list(sd['agent'])}
    sd['grid'][f[0]][f[1]] = draw(obj_s({'types': [k] + ([t for t in space['types'] if t != 'Box'] if k == 'Box' else []), 'colors': space['colors']}, 1)
                                  .filter(lambda o: obj_type(o) == k))
    return sd


def grow(d, H, W):
    """tile the grid of a small descriptor to H x W (cheap in generator entropy: large members from small draws)"""
    h, w = len(d['grid']), len(d['grid'][0])
    a = list(d['agent'])
    a[0], a[1] = min(a[0], H - 1), min(a[1], W - 1)       # the large grid may be smaller than the tile in one dimension
    return {'grid': [[d['grid'][y % h][x % w] for x in range(W)] for y in range(H)], 'agent': a}


@st.composite
def big_shape_s(draw, kind):
    """shapes around the integer-width boundaries (127/128, 255/256) in one dimension, or moderately large in both"""
    long = draw(st.sampled_from([40, 64, 127, 128, 129, 200, 255, 256, 257, 300]))
    if kind == 'obs':
        short = draw(st.sampled_from([1, 3, 5]))
        return (long, short) if draw(st.booleans()) else (draw(st.sampled_from([2, 3, 4])), long + (1 - long % 2))
    if draw(st.integers(0, 3)) == 0:
        return (draw(st.integers(20, 40)), draw(st.integers(20, 40)))
    short = draw(st.integers(2, 4))
    return (long, short) if draw(st.booleans()) else (short, long)


# view areas with both sides of 32 cells and more (array paths, printing thresholds and integer widths change around there);
# used with the observation functions that do not trace rays (those have their own large-view checks)
HUGE_AREAS = [[[-31, 0], [-15, 16]], [[-32, 0], [-16, 16]], [[-39, 0], [-20, 20]], [[-32, 0], [-31, 2]], [[-63, 0], [-16, 16]],
              [[-63, 0], [-31, 32]], [[-64, 0], [-32, 32]], [[-70, 0], [-35, 35]], [[-129, 0], [-64, 64]], [[-256, 0], [-128, 128]]]


def embed(d, H, W, oy, ox, fill='F'):
    """the small world placed inside an H x W field of `fill` at offset (oy, ox); the agent moves with it"""
    h, w = len(d['grid']), len(d['grid'][0])
    assert oy + h <= H and ox + w <= W
    grid = [[fill] * W for _ in range(H)]
    for y in range(h):
        for x in range(w):
            grid[oy + y][ox + x] = d['grid'][y][x]
    a = list(d['agent'])
    a[0], a[1] = a[0] + oy, a[1] + ox
    return {'grid': grid, 'agent': a}


HUGE_CENTRED = [[-20, 12], [-16, 16]]      # 33 x 33 cells with the agent well inside: a small world around it lies in the view's interior
