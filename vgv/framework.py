"""Runner plumbing shared by all property modules.

A property module exposes `CHECKS`: a list of `Check` objects.  A Check is either
 * generated:   `strategy(tier)` -> Hypothesis strategy of JSON-able cases, and
                `oracle(case, ctx)` -- a plain function that raises Violation;
 * enumerated:  `enumerate(tier, shard, nshards)` -> iterable of cases (finite domain,
                partitioned over shards), same oracle;
 * stateful:    `machine(tier)` -> a RuleBasedStateMachine subclass built on
                `LoggedMachine`; the recorded op log is the case and
                `oracle(case, ctx)` replays a log without Hypothesis.
The shrunk failing case is written as the replay file; `--replay` calls the oracle
directly (no Hypothesis involved).
"""
import hashlib
import json
import os
import sys
import time
import traceback
from collections import Counter
from dataclasses import dataclass, field
from typing import Callable, Dict, List, Optional

VERIF_DIR = os.path.dirname(os.path.dirname(os.path.abspath(__file__)))
REPO_DIR = os.path.realpath(os.environ.get('VERIF_REPO', '/repo'))


class Violation(Exception):
    """the property does not hold for this case (on the repository's side)"""

    def __init__(self, msg, sig=None):
        super().__init__(msg)
        self.sig = sig or {}


class HarnessError(Exception):
    """the machinery itself is broken (exit 2, never a VIOLATION)"""


class Inconclusive(Exception):
    """budget exhausted without a verdict for this case (never a violation)"""


def digest(obj) -> str:
    return hashlib.sha1(json.dumps(obj, sort_keys=True, default=str).encode()).hexdigest()[:16]


class Ev:
    """evidence recorder for one (check, shard) task"""

    MAX_SAMPLES = 4

    def __init__(self):
        self.evals = 0
        self.nt = set()
        self.classes = Counter()
        self.samples = []
        self.known = Counter()
        self.inconclusive = 0
        self.notes = []

    def case(self, case, *, nt, classes=(), key=None, sample=None):
        """record one executed case.  nt: non-trivial by the check's stated rule."""
        self.evals += 1
        for c in classes:
            self.classes[c] += 1
        if nt:
            d = digest(case if key is None else key)
            new = d not in self.nt
            self.nt.add(d)
            if new and len(self.samples) < self.MAX_SAMPLES:
                self.samples.append(case if sample is None else sample)

    def count(self, cls, n=1):
        self.classes[cls] += n

    def dump(self):
        return {
            'evals': self.evals, 'nt': sorted(self.nt), 'classes': dict(self.classes),
            'samples': self.samples, 'known': dict(self.known),
            'inconclusive': self.inconclusive, 'notes': self.notes,
        }


@dataclass
class Check:
    name: str
    oracle: Callable
    strategy: Optional[Callable] = None
    enumerate: Optional[Callable] = None
    machine: Optional[Callable] = None
    examples: Dict[str, int] = field(default_factory=lambda: {'quick': 200, 'thorough': 2000})
    shards: Dict[str, int] = field(default_factory=lambda: {'quick': 1, 'thorough': 16})
    steps: Dict[str, int] = field(default_factory=lambda: {'quick': 30, 'thorough': 60})
    required: List[str] = field(default_factory=list)  # classes that must be hit
    rule: str = ''
    exhaustive: bool = False
    pristine: bool = False   # fork a server for answers from processes without history (before the first case runs)


class Pristine:
    """answers computed in processes that have executed nothing before.  A server process is forked when the task (or replay) starts --
    the process has only imported modules at that point -- and forks a grandchild for every question; the grandchild computes the
    answer and exits.  What the code under test remembers from earlier questions therefore cannot reach these answers."""

    def __init__(self):
        import multiprocessing as mp
        ctx = mp.get_context('fork')
        self.conn, child = ctx.Pipe()
        self.proc = ctx.Process(target=Pristine._serve, args=(child,), daemon=True)
        self.proc.start()
        child.close()
        self.calls = 0

    @staticmethod
    def _serve(conn):
        import importlib
        import pickle
        while True:
            try:
                msg = conn.recv()
            except (EOFError, OSError):
                break
            if msg is None:
                break
            r, w = os.pipe()
            pid = os.fork()
            if pid == 0:
                try:
                    os.close(r)
                    try:
                        fn = getattr(importlib.import_module(msg[0]), msg[1])
                        out = ('ok', fn(*msg[2]))
                    except BaseException as e:  # noqa: BLE001
                        out = ('err', f'{type(e).__name__}: {e}')
                    with os.fdopen(w, 'wb') as f:
                        f.write(pickle.dumps(out))
                finally:
                    os._exit(0)
            os.close(w)
            with os.fdopen(r, 'rb') as f:
                data = f.read()
            os.waitpid(pid, 0)
            try:
                conn.send(pickle.loads(data) if data else ('err', 'no answer from the pristine process'))
            except (EOFError, OSError):
                break
        os._exit(0)

    def call(self, module, name, *args):
        self.calls += 1
        self.conn.send((module, name, args))
        if not self.conn.poll(600):
            raise HarnessError('pristine process did not answer within 600 s')
        kind, val = self.conn.recv()
        return kind, val

    def close(self):
        try:
            self.conn.send(None)
            self.conn.close()
        except Exception:  # noqa: BLE001
            pass


class Ctx:
    """what an oracle sees"""

    def __init__(self, prop, check, tier, seed, shard, findings):
        self.prop = prop
        self.check = check
        self.tier = tier
        self.seed = seed
        self.shard = shard
        self.ev = Ev()
        self.findings = findings
        self.replaying = False
        self.pristine = None

    def fail(self, msg, sig=None):
        """report a failure of the property; returns (does not raise) iff it matches an
        *open* entry of known_findings.json"""
        sig = dict(sig or {})
        f = self.findings.match(self.prop, sig) if self.findings else None
        if f is not None:
            self.ev.known[f['id']] += 1
            return
        raise Violation(msg, sig)


def in_repo(tb) -> bool:
    """is the innermost frame of the traceback inside the repository under test?"""
    last = None
    while tb is not None:
        last = tb
        tb = tb.tb_next
    if last is None:
        return False
    fn = os.path.realpath(last.tb_frame.f_code.co_filename)
    return fn.startswith(REPO_DIR + os.sep)


def guarded(ctx, what, fn, *a, **k):
    """call repository code that, by the property, must not raise"""
    try:
        return fn(*a, **k)
    except (Violation, HarnessError, Inconclusive):
        raise
    except Exception as e:  # noqa: BLE001 -- classified, not swallowed
        ctx.fail(f'{what} raised {type(e).__name__}: {e}', {'kind': 'raises', 'what': what, 'exc': type(e).__name__})
        raise _KnownSkip()


class _KnownSkip(Exception):
    """a guarded call failed in a way that is a listed known finding: skip the rest of the case"""


# ---------------------------------------------------------------------------------


def _settings(n, tier, steps=None):
    from hypothesis import HealthCheck, Phase, settings
    kw = dict(
        max_examples=n, database=None, deadline=None, derandomize=False,
        report_multiple_bugs=False, suppress_health_check=list(HealthCheck),
        phases=[Phase.generate] if os.environ.get('VERIF_NO_SHRINK') else [Phase.generate, Phase.shrink], print_blob=False,
    )
    if steps is not None:
        kw['stateful_step_count'] = steps
    return settings(**kw)


def task_seed(seed, shard, check_index):
    return (seed * 1000003 + shard * 1009 + check_index * 17) % (2**62)


def run_task(prop, check: Check, check_index, tier, seed, shard, nshards, findings):
    """run one (check, shard); returns dict(ev=..., violation=None|{...}, error=None|str)"""
    import hypothesis
    from hypothesis import given

    ctx = Ctx(prop, check.name, tier, seed, shard, findings)
    if check.pristine:
        ctx.pristine = Pristine()
    last = {}
    out = {'check': check.name, 'shard': shard, 'violation': None, 'error': None}
    t0 = time.time()

    def run_oracle(case):
        last['case'] = case
        try:
            check.oracle(case, ctx)
        except _KnownSkip:
            pass
        except Inconclusive:
            ctx.ev.inconclusive += 1
        except Violation as v:
            last.setdefault('first_violation', {'case': json.loads(json.dumps(case, default=str)), 'message': str(v), 'sig': v.sig})
            raise
        except HarnessError:
            raise
        except Exception as e:  # noqa: BLE001
            if in_repo(e.__traceback__):
                try:
                    ctx.fail(f'unexpected {type(e).__name__} inside repository code: {e}',
                             {'kind': 'raises', 'exc': type(e).__name__})
                except Violation as v:
                    raise v from e
            else:
                raise

    try:
        if check.enumerate is not None:
            for case in check.enumerate(tier, shard, nshards):
                run_oracle(case)
        elif check.machine is not None:
            from hypothesis.stateful import run_state_machine_as_test
            M = check.machine(tier, ctx, last)
            M = hypothesis.seed(task_seed(seed, shard, check_index))(M)
            run_state_machine_as_test(M, settings=_settings(check.examples[tier], tier, check.steps[tier]))
        else:
            n = check.examples[tier]

            @hypothesis.seed(task_seed(seed, shard, check_index))
            @_settings(n, tier)
            @given(check.strategy(tier))
            def t(case):
                run_oracle(case)

            t()
    except Violation as v:
        out['violation'] = {'case': last.get('case'), 'message': str(v), 'sig': v.sig}
    except HarnessError as e:
        out['error'] = f'HarnessError: {e}\n' + traceback.format_exc()
    except Exception as e:  # noqa: BLE001
        flaky = type(e).__name__ in ('Flaky', 'FlakyFailure', 'FlakyStrategyDefinition', 'FlakyReplay')
        if flaky and last.get('first_violation'):
            # the oracle did fail on a real execution, but Hypothesis could not reproduce it when replaying the case:
            # the failure depends on what the process did before (state leaking between cases inside the code under test)
            fv = last['first_violation']
            out['violation'] = {'case': fv['case'], 'message': fv['message'] + '  [history-dependent: not reproduced when the case was replayed in the same process]', 'sig': fv['sig']}
        elif check.machine is not None and in_repo(e.__traceback__):
            out['violation'] = {'case': last.get('case'), 'message': f'unexpected {type(e).__name__} inside repository code: {e}', 'sig': {'kind': 'raises'}}
        else:
            out['error'] = f'{type(e).__name__}: {e}\n' + traceback.format_exc() + f'\nlast case: {json.dumps(last.get("case"), default=str)[:2000]}'
    out['ev'] = ctx.ev.dump()
    out['wall'] = time.time() - t0
    return out


def replay_case(prop, check: Check, case, findings, shard=0):
    """run the oracle on a stored case, bypassing Hypothesis.  returns (ok, message, ctx)"""
    ctx = Ctx(prop, check.name, 'quick', 0, shard, findings)
    ctx.replaying = True
    if check.pristine:
        ctx.pristine = Pristine()
    try:
        check.oracle(case, ctx)
    except _KnownSkip:
        return True, 'known finding', ctx
    except Inconclusive:
        return True, 'inconclusive', ctx
    except Violation as v:
        return False, str(v), ctx
    except HarnessError:
        raise
    except Exception as e:  # noqa: BLE001
        if in_repo(e.__traceback__):
            try:
                ctx.fail(f'unexpected {type(e).__name__} inside repository code: {e}', {'kind': 'raises', 'exc': type(e).__name__})
            except Violation as v:
                return False, str(v), ctx
            return True, 'known finding', ctx
        raise
    return True, 'ok', ctx


# ---------------------------------------------------------------------------------
# stateful support


def make_machine_base():
    from hypothesis.stateful import RuleBasedStateMachine

    class LoggedMachine(RuleBasedStateMachine):
        """records every rule application; the log is the replayable case.
        Subclasses set DRIVER (a class with one method per op and `finish()`),
        CTX and LAST before use."""

        DRIVER = None
        CTX = None
        LAST = None

        def __init__(self):
            super().__init__()
            self.log = []
            self.LAST['case'] = self.log
            self.driver = None

        def op(self, name, *args):
            self.log.append([name, *args])
            self.LAST['case'] = self.log
            if self.driver is None:
                raise HarnessError('driver not initialised')
            try:
                getattr(self.driver, 'op_' + name)(*args)
            except _KnownSkip:
                pass
            except Violation as v:
                self.LAST.setdefault('first_violation', {'case': json.loads(json.dumps(self.log, default=str)), 'message': str(v), 'sig': v.sig})
                raise

        def start(self, *args):
            self.log.append(['init', *args])
            self.LAST['case'] = self.log
            try:
                self.driver = self.DRIVER(self.CTX, *args)
            except Violation as v:
                self.LAST.setdefault('first_violation', {'case': json.loads(json.dumps(self.log, default=str)), 'message': str(v), 'sig': v.sig})
                raise

        def teardown(self):
            if self.driver is not None:
                self.driver.log = self.log
                try:
                    self.driver.finish()
                except _KnownSkip:
                    pass

    return LoggedMachine


def replay_log(driver_cls, log, ctx):
    """oracle for stateful checks: apply a recorded log to a fresh driver"""
    if not log:
        return
    assert log[0][0] == 'init', log[0]
    d = driver_cls(ctx, *log[0][1:])
    for op in log[1:]:
        getattr(d, 'op_' + op[0])(*op[1:])
    d.log = log
    d.finish()
