"""Property-based verification machinery for abaisero/gym-gridverse (see DESIGN.md)."""
