"""What the process did before the first case of a task.  The library sees objects of a type for the first time exactly once per
process; anything it remembers *per type* (or per name, per shape) from that first encounter stays for the life of the process.  So
the first encounter is chosen by construction, differently in every shard: shard k first meets a door whose status is
STATUSES[k % 3] -- observed by every observation function, walked into, actuated with and without the key.  Nothing is checked
here; the task's own oracle decides.  (A saved case records its shard, so a replay has the same prelude.)"""
from vgv import envs, objs

_DONE = False


def door_first(ctx):
    global _DONE
    if _DONE:
        return
    _DONE = True
    from gym_gridverse.envs.observation_functions import observation_function_registry as OBS
    from gym_gridverse.geometry import Area
    from gym_gridverse.rng import make_rng
    status = objs.STATUSES[ctx.shard % 3]
    sd = {'grid': [['F', f'D:{status}:RED', 'F'], ['F', 'F', 'F']], 'agent': [0, 0, 'R', '_']}
    area = Area((-2, 0), (-1, 1))
    for name in ('fully_transparent', 'partially_occluded', 'raytracing', 'stochastic_raytracing'):
        try:
            OBS[name](objs.build_state(sd), area=area, rng=make_rng(0))
        except Exception:  # noqa: BLE001 -- the prelude decides nothing
            pass
    fn = envs.mk_transition(['move_agent', 'actuate_door', 'turn_agent'])
    for held in ('_', 'K:RED'):
        s = objs.build_state(dict(sd, agent=[0, 0, 'R', held]))
        for a in ('MOVE_FORWARD', 'ACTUATE', 'MOVE_FORWARD', 'TURN_LEFT'):
            try:
                fn(s, objs.action(a), rng=make_rng(0))
            except Exception:  # noqa: BLE001
                pass
    ctx.ev.count('prelude:first_door_' + status)
