"""C02 -- seeded environments are reproducible and isolated from every global RNG."""
import atexit
import json
import os
import random
import subprocess
import sys

import numpy as np
from hypothesis import strategies as st
from hypothesis.stateful import initialize, precondition, rule

from vgv import configs, envs, model as M, objs, trace
from vgv.framework import Check, HarnessError, VERIF_DIR, REPO_DIR, make_machine_base, replay_log

from gym_gridverse.debugging import reset_gv_debug
from gym_gridverse.rng import get_gv_rng, reset_gv_rng

RULE = ('non-trivial = the program actually consumed randomness (its trace differs from the trace under seed+1) and, for the interleaving '
        'machine, the schedule has at least 2 switches between environments; distinct by (configuration, seed, ops).')
ASSUMPTIONS = [
    'building an environment legitimately draws from the library generator (factory_env_from_data resets once to size the spaces); snapshots start after construction and set_seed',
    'hash randomisation is sampled: three worker interpreters with PYTHONHASHSEED in {0, 1, 1000+VERIF_SEED} (8 values in the thorough tier)',
]

ops_s = st.lists(st.one_of(st.just(['reset']), st.tuples(st.just('step'), st.integers(0, 7)).map(list), st.just(['obs']), st.just(['state']),
                           st.tuples(st.just('step'), st.integers(0, 3)).map(list), st.tuples(st.just('reseed'), st.integers(0, 5)).map(list)), min_size=1, max_size=40).map(lambda ops: [['reset']] + ops)


def snap():
    g = get_gv_rng().bit_generator.state
    n = np.random.get_state()
    return (json.dumps(g, sort_keys=True, default=str), (n[0], n[1].tobytes(), n[2], n[3], n[4]), random.getstate())


# ------------------------------------------------------------------ (1) interleaving machine


class Driver:
    def __init__(self, ctx, cfgs, seeds, unseeded_cfg):
        self.ctx = ctx
        self.cfgs = cfgs
        self.seeds = seeds
        reset_gv_debug(None)
        self.envs = [configs.build(c, s) for c, s in zip(cfgs, seeds)]
        self.unseeded = configs.build(unseeded_cfg)          # no set_seed: uses the library generator
        self.unseeded_started = False
        get_gv_rng()                                         # force the library generator into existence before any snapshot
        self.ops = [[] for _ in cfgs]
        self.traces = [[] for _ in cfgs]
        self.started = [False] * len(cfgs)
        self.schedule = []
        self.noise = 0

    def _run(self, slot, op):
        env = self.envs[slot]
        before = snap()
        t, st_ = trace.run_op(env, op, self.started[slot])
        after = snap()
        names = ('library generator', 'numpy.random', 'random')
        for nm, b, a in zip(names, before, after):
            if a != b:
                self.ctx.fail(f'operation {op} on the seeded environment {self.cfgs[slot]["base"]} {self.cfgs[slot]["mods"]} changed the state of the global {nm}',
                              {'kind': 'global_rng', 'which': nm})
        self.started[slot] = st_
        self.ops[slot].append(op)
        self.traces[slot].extend(t)
        self.schedule.append(slot)

    def op_env(self, slot, kind, arg):
        slot %= len(self.envs)
        op = [kind] if kind not in ('step', 'reseed') else [kind, arg if kind == 'step' else self.seeds[slot] + (arg % 2)]
        self._run(slot, op)

    def op_debug(self, flag):
        reset_gv_debug(flag)

    def op_noise(self, kind, n):
        self.noise += 1
        if kind == 'np_draw':
            np.random.random(n % 5 + 1)
        elif kind == 'np_seed':
            np.random.seed(n)
        elif kind == 'py_draw':
            random.random()
        elif kind == 'py_seed':
            random.seed(n)
        elif kind == 'gv_draw':
            get_gv_rng().random(n % 5 + 1)
        elif kind == 'gv_seed':
            reset_gv_rng(n)

    def op_unseeded(self, kind, arg):
        self.noise += 1
        if kind == 'reset' or not self.unseeded_started:
            self.unseeded.reset()
            self.unseeded_started = True
        elif kind == 'step':
            r, t = self.unseeded.step(self.unseeded.action_space.int_to_action(arg % self.unseeded.action_space.num_actions))
            if t:
                self.unseeded.reset()
        else:
            self.unseeded.observation

    def finish(self):
        try:
            for slot, (cfg, seed) in enumerate(zip(self.cfgs, self.seeds)):
                if not self.ops[slot]:
                    continue
                for debug in (True, False):
                    reset_gv_debug(debug)
                    alone = trace.run_ops(configs.build(cfg, seed), self.ops[slot])
                    if alone != self.traces[slot]:
                        k = next(i for i, (a, b) in enumerate(zip(alone, self.traces[slot])) if a != b)
                        self.ctx.fail(f'environment {cfg["base"]} {cfg["mods"]} seed {seed}: the trace under interleaving with other environments/global-RNG noise differs '
                                      f'from the same program run alone (debug={debug}) at trace entry {k}: {str(self.traces[slot][k])[:160]} vs alone {str(alone[k])[:160]}',
                                      {'kind': 'interleaving'})
            # a re-seeded instance behaves like a fresh environment given that seed
            for slot, cfg in enumerate(self.cfgs):
                ops, tr = self.ops[slot], self.traces[slot]
                marks = [i for i, e in enumerate(tr) if e[0] == 'reseed']
                opmarks = [i for i, o in enumerate(ops) if o[0] == 'reseed']
                for m, om in zip(marks, opmarks):
                    end = min([x for x in marks if x > m] + [len(tr)])
                    oend = min([x for x in opmarks if x > om] + [len(ops)])
                    fresh = trace.run_ops(configs.build(cfg, ops[om][1]), [['reset']] + ops[om + 1:oend])
                    got = [['reset', tr[m][2]]] + tr[m + 1:end]
                    if fresh != got:
                        k = next((i for i, (a, b) in enumerate(zip(fresh, got)) if a != b), min(len(fresh), len(got)))
                        self.ctx.fail(f'environment {cfg["base"]} {cfg["mods"]}: after set_seed({ops[om][1]}) on a used instance the trace differs from a fresh environment '
                                      f'with that seed at entry {k}: {str(got[k])[:140] if k < len(got) else None} vs fresh {str(fresh[k])[:140] if k < len(fresh) else None}',
                                      {'kind': 'reseed'})
        finally:
            reset_gv_debug(None)
        switches = sum(1 for a, b in zip(self.schedule, self.schedule[1:]) if a != b)
        consumed = 0
        for slot, (cfg, seed) in enumerate(zip(self.cfgs, self.seeds)):
            if self.ops[slot] and trace.run_ops(configs.build(cfg, seed + 1), self.ops[slot]) != self.traces[slot]:
                consumed += 1
        cl = [f'slots={len(self.envs)}'] + (['reseeded'] if any(o[0] == 'reseed' for ops in self.ops for o in ops) else []) + (['switches>=2'] if switches >= 2 else []) + (['randomness_consumed'] if consumed else []) + (['noise'] if self.noise else [])
        self.ctx.ev.case(None, nt=(switches >= 2 and consumed > 0), classes=cl, key=[self.cfgs, self.seeds, self.ops],
                         sample={'op_log (first 40)': getattr(self, 'log', [])[:40], 'cfgs': self.cfgs, 'seeds': self.seeds, 'schedule': self.schedule[:40], 'noise_ops': self.noise})


def machine(tier, ctx, last):
    Base = make_machine_base()
    built = precondition(lambda self: self.driver is not None)

    class C02Machine(Base):
        DRIVER = Driver
        CTX = ctx
        LAST = last

        @initialize(cfgs=st.lists(configs.config_s(stochastic_bias=True), min_size=2, max_size=3), seeds=st.lists(st.integers(0, 2**31), min_size=3, max_size=3),
                    same=st.booleans(), unseeded=configs.config_s(stochastic_bias=True))
        def init(self, cfgs, seeds, same, unseeded):
            if same:
                cfgs = [cfgs[0]] * len(cfgs)  # several live environments of one configuration (same seed too, sometimes)
                if seeds[2] % 2:
                    seeds = [seeds[0]] * 3
            self.start(cfgs, seeds[: len(cfgs)], unseeded)

        @built
        @rule(slot=st.integers(0, 2), kind=st.sampled_from(['reset', 'step', 'step', 'step', 'obs', 'state', 'reseed']), arg=st.integers(0, 7))
        def env_op(self, slot, kind, arg):
            self.op('env', slot, kind, arg)

        @built
        @rule(flag=st.sampled_from([True, False, None]))
        def toggle_debug(self, flag):
            self.op('debug', flag)

        @built
        @rule(kind=st.sampled_from(['np_draw', 'np_seed', 'py_draw', 'py_seed', 'gv_draw', 'gv_seed']), n=st.integers(0, 1000))
        def global_noise(self, kind, n):
            self.op('noise', kind, n)

        @built
        @rule(kind=st.sampled_from(['reset', 'step', 'obs']), arg=st.integers(0, 7))
        def unseeded_op(self, kind, arg):
            self.op('unseeded', kind, arg)

    return C02Machine


def oracle_machine(log, ctx):
    replay_log(Driver, log, ctx)


# ------------------------------------------------------------------ (2) across interpreter processes

_WORKERS = {}


def _hashseeds(tier):
    base = int(os.environ.get('VERIF_SEED', '1') or '1')
    hs = [0, 1, 1000 + base]
    if tier == 'thorough':
        hs += [2, 3, 12345, 2000 + base, 4294967295]
    return hs


def _worker(hs):
    key = (os.getpid(), hs)
    w = _WORKERS.get(key)
    if w is None or w.poll() is not None:
        env = dict(os.environ)
        env['PYTHONHASHSEED'] = str(hs)
        env['PYTHONPATH'] = os.pathsep.join([VERIF_DIR, os.path.join(VERIF_DIR, 'vendor'), os.path.join(VERIF_DIR, '.deps'), REPO_DIR, os.path.join(REPO_DIR, 'examples')])
        w = subprocess.Popen([sys.executable, '-W', 'ignore', '-m', 'vgv.worker'], stdin=subprocess.PIPE, stdout=subprocess.PIPE, stderr=subprocess.DEVNULL,
                             env=env, cwd=VERIF_DIR, text=True, bufsize=1)
        line = w.stdout.readline().strip()
        if line != 'ready':
            raise HarnessError(f'trace worker (PYTHONHASHSEED={hs}) did not start: {line!r}')
        _WORKERS[key] = w
    return w


@atexit.register
def _cleanup():
    for (pid, _), w in list(_WORKERS.items()):
        if pid == os.getpid():
            try:
                w.stdin.close()
                w.terminate()
            except Exception:  # noqa: BLE001
                pass


def ask(hs, prog):
    w = _worker(hs)
    w.stdin.write(json.dumps(prog) + '\n')
    w.stdin.flush()
    line = w.stdout.readline()
    if not line:
        raise HarnessError(f'trace worker (PYTHONHASHSEED={hs}) died')
    return json.loads(line)


def ask_fresh(hs, prog):
    """a worker interpreter started for this one program: nothing has happened in that process before"""
    env = dict(os.environ)
    env['PYTHONHASHSEED'] = str(hs)
    env['PYTHONPATH'] = os.pathsep.join([VERIF_DIR, os.path.join(VERIF_DIR, 'vendor'), os.path.join(VERIF_DIR, '.deps'), REPO_DIR, os.path.join(REPO_DIR, 'examples')])
    r = subprocess.run([sys.executable, '-W', 'ignore', '-m', 'vgv.worker'], input=json.dumps(prog) + '\n', stdout=subprocess.PIPE, stderr=subprocess.DEVNULL,
                       env=env, cwd=VERIF_DIR, text=True, timeout=600)
    lines = r.stdout.strip().splitlines()
    if len(lines) < 2 or lines[0] != 'ready':
        raise HarnessError(f'fresh trace worker (PYTHONHASHSEED={hs}) gave {r.stdout[:200]!r}')
    return json.loads(lines[1])


def strat_prog(tier):
    return st.fixed_dictionaries({'cfg': configs.config_s(), 'seed': st.integers(0, 2**31), 'ops': ops_s})


def oracle_prog(case, ctx):
    cfg, seed, ops = case['cfg'], case['seed'], case['ops']
    reset_gv_debug(None)
    mine = trace.trace_digest(trace.run_ops(configs.build(cfg, seed), ops))
    again = trace.trace_digest(trace.run_ops(configs.build(cfg, seed), ops))
    if mine != again:
        ctx.fail(f'{cfg["base"]} {cfg["mods"]} seed {seed}: two environments with the same seed give different traces within one process', {'kind': 'same_process'})
    for k, hs in enumerate(_hashseeds(ctx.tier)):
        debug = [None, False, True][k % 3]
        ans = ask(hs, {'cfg': cfg, 'seed': seed, 'ops': ops, 'debug': debug})
        if 'error' in ans:
            ctx.fail(f'{cfg["base"]} {cfg["mods"]} seed {seed}: worker with PYTHONHASHSEED={hs} failed: {ans["error"]}', {'kind': 'worker_error'})
        elif ans['digest'] != mine:
            ctx.fail(f'{cfg["base"]} {cfg["mods"]} seed {seed}: trace differs between interpreter processes (PYTHONHASHSEED=0 here vs {hs}, debug={debug}); ops {ops[:8]}...',
                     {'kind': 'cross_process', 'reset': configs.data_of(cfg)['reset_function']['name']})
    other = trace.trace_digest(trace.run_ops(configs.build(cfg, seed + 1), ops))
    ctx.ev.case(case, nt=(other != mine), classes=['cfg:' + cfg['base'].replace('.yaml', '')] + (['randomness_consumed'] if other != mine else []) + (['perturbed'] if cfg['mods'] else ['shipped'])
                + (['relative_raytracing_observed'] if cfg['mods'].get('vis', {}).get('absolute_counts') is False and any(o[0] == 'obs' for o in ops) else []))


@st.composite
def strat_history(draw, tier):
    cfg = draw(configs.config_s())
    if draw(st.integers(0, 2)) == 0:
        # components with parameters that no shipped file uses (their code paths are the least travelled)
        cfg = {'base': cfg['base'], 'mods': dict(cfg['mods'], obs='from_visibility',
                                                 vis={'name': 'raytracing', 'absolute_counts': False, 'threshold': draw(st.sampled_from([0.25, 0.5, 0.75, 1.0]))})}
    return {'cfg': cfg, 'seed': draw(st.integers(0, 2**31)), 'ops': draw(ops_s) + [['obs']],
            'warm_seeds': draw(st.lists(st.integers(0, 2**31), min_size=1, max_size=3)), 'warm_ops': draw(ops_s) + [['obs'], ['step', 0], ['obs']]}


def oracle_history(case, ctx):
    """other environments of the same configuration (other seeds) are run first in this process -- whatever they leave behind in
    module- or class-level state keyed by shapes, names or parameters is now in place -- then the program; an interpreter started
    for the program alone must produce the same trace"""
    cfg, seed, ops = case['cfg'], case['seed'], case['ops']
    reset_gv_debug(None)
    for ws in case['warm_seeds']:
        trace.run_ops(configs.build(cfg, ws), case['warm_ops'])
    mine = trace.trace_digest(trace.run_ops(configs.build(cfg, seed), ops))
    hs = _hashseeds(ctx.tier)[seed % len(_hashseeds(ctx.tier))]
    ans = ask_fresh(hs, {'cfg': cfg, 'seed': seed, 'ops': ops, 'debug': None})
    if 'error' in ans:
        ctx.fail(f'{cfg["base"]} {cfg["mods"]} seed {seed}: fresh worker with PYTHONHASHSEED={hs} failed: {ans["error"]}', {'kind': 'worker_error'})
    elif ans['digest'] != mine:
        ctx.fail(f'{cfg["base"]} {cfg["mods"]} seed {seed}: after {len(case["warm_seeds"])} other environment(s) of the same configuration were run in this process, the trace differs from '
                 f'that of a freshly started interpreter (PYTHONHASHSEED={hs}) which runs only this program; ops {ops[:8]}...',
                 {'kind': 'process_history', 'reset': configs.data_of(cfg)['reset_function']['name']})
    rel = cfg['mods'].get('vis', {}).get('absolute_counts') is False
    ctx.ev.case(case, nt=True, classes=['cfg:' + cfg['base'].replace('.yaml', '')] + (['relative_raytracing'] if rel else []) + (['perturbed'] if cfg['mods'] else ['shipped']))


def enum_shipped(tier, shard, nshards):
    """every shipped configuration x a few seeds: deterministic part of the cross-process check"""
    names = envs.shipped_names()
    base = int(os.environ.get('VERIF_SEED', '1') or '1')
    i = 0
    for n in names:
        for s in range(3 if tier == 'quick' else 10):
            i += 1
            if i % nshards == shard:
                yield {'cfg': {'base': n, 'mods': {}}, 'seed': base * 100 + s, 'ops': [['reset']] + [['step', (j * 3 + s) % 8] for j in range(12)] + [['obs'], ['reset'], ['state'], ['step', 0], ['obs']]}


# ------------------------------------------------------------------ (3) reset functions beyond the shipped parameters


def strat_reset(tier):
    from vgv.props import c13
    return st.sampled_from(c13.FUNCTIONS).flatmap(lambda fn: st.fixed_dictionaries({
        'fn': st.just(fn), 'p': c13.params_s(fn, tier), 'seed': st.integers(0, 2**31), 'n': st.integers(1, 6),
        'lib': st.lists(st.integers(0, 10**6), min_size=2, max_size=2, unique=True)}))


def oracle_reset(case, ctx):
    """k resets of a seeded environment: same seed -> same states whatever the library generator holds; globals untouched"""
    from vgv.props import c14
    fn, p, seed = case['fn'], case['p'], case['seed']
    runs = []
    for lib in case['lib']:
        reset_gv_rng(lib)
        np.random.seed(lib % 2**32)
        random.seed(lib)
        try:
            env = c14.make_env(fn, p, seed)
        except ValueError:
            ctx.ev.count(fn + ':rejected')
            return
        states = []
        for k in range(case['n']):
            before = snap()
            try:
                s = env.functional_reset()
            except ValueError:
                states.append('ValueError')
                continue
            after = snap()
            for nm, b, a in zip(('library generator', 'numpy.random', 'random'), before, after):
                if a != b:
                    ctx.fail(f'{fn}({p}) seed {seed}: reset number {k} of a seeded environment changed the state of the global {nm}', {'kind': 'global_rng', 'which': nm})
            states.append(objs.canon_state(s))
        runs.append(states)
    if runs[0] != runs[1]:
        k = next(i for i, (a, b) in enumerate(zip(*runs)) if a != b)
        ctx.fail(f'{fn}({p}) seed {seed}: two environments with the same seed produce different initial states at reset number {k} '
                 f'(the library generator was seeded {case["lib"][0]} vs {case["lib"][1]})', {'kind': 'same_process'})
    if all(s == 'ValueError' for s in runs[0]):
        ctx.ev.count(fn + ':rejected')
        return
    varied = len({json.dumps(s, sort_keys=True) for s in runs[0]}) > 1
    ctx.ev.case(case, nt=varied, classes=['reset:' + fn] + (['resets_differ'] if varied else []))


# ------------------------------------------------------------------ (3b) transition and observation functions: the generator passed in, and nothing else


@st.composite
def strat_components(draw, tier):
    from vgv import gen
    space = draw(gen.space_s(must=('Floor', 'Telepod', 'MovingObstacle')))
    sd = draw(gen.state_s(space, min_hw=2, max_hw=6, valid=True, floor_weight=2))
    h, w = M.shape(sd)
    if draw(st.booleans()):
        # by construction: the agent on a telepod with two or three same-coloured partners (several destinations to choose from)
        col = draw(st.sampled_from(space['colors']))
        cells = [(y, x) for y in range(h) for x in range(w) if (y, x) != (sd['agent'][0], sd['agent'][1])]
        k = min(len(cells), draw(st.integers(2, 3)))
        for (y, x) in draw(st.lists(st.sampled_from(cells), min_size=k, max_size=k, unique=True)) if cells else []:
            sd['grid'][y][x] = f'T:{col}'
        sd['grid'][sd['agent'][0]][sd['agent'][1]] = f'T:{col}'
    chain = draw(gen.chain_s(M.TRANSITIONS))
    for need in ('teleport', 'move_obstacles'):
        if need not in chain and draw(st.booleans()):
            chain = chain + [need]
    return {'space': space, 'state': sd, 'chain': chain, 'action': draw(gen.action_s), 'seed': draw(st.integers(0, 2**31)),
            'obs': draw(st.sampled_from(['stochastic_raytracing', 'raytracing', 'partially_occluded', 'fully_transparent'])),
            'lib': draw(st.lists(st.integers(0, 10**6), min_size=2, max_size=2, unique=True))}


def oracle_components(case, ctx):
    """a transition chain and an observation function, given a seeded generator: the same result whatever the global generators
    hold, and the globals (numpy's legacy generator, `random`, the library's own default generator) are left exactly as they were"""
    from vgv import obsutil
    from gym_gridverse.envs.transition_functions import transition_with_copy
    from gym_gridverse.rng import make_rng
    sd = case['state']
    fn = envs.mk_transition(case['chain'])
    outs = []
    for lib in case['lib']:
        reset_gv_rng(lib)
        np.random.seed(lib % 2**32)
        random.seed(lib)
        rng = make_rng(case['seed'])
        before = snap()
        s = objs.build_state(sd)
        res = []
        for _ in range(3):
            s = transition_with_copy(fn, s, objs.action(case['action']), rng=rng)
            res.append(objs.canon_state(s))
        res.append(obsutil.observe(case['obs'], objs.build_state(sd), [[-3, 0], [-2, 2]], case['seed']))
        after = snap()
        for nm, b, a in zip(('library generator', 'numpy.random', 'random'), before, after):
            if a != b:
                ctx.fail(f'chain {case["chain"]} / observation {case["obs"]} given a seeded generator changed the state of the global {nm} (action {case["action"]}, agent {sd["agent"]})',
                         {'kind': 'global_rng', 'which': nm})
        outs.append(res)
    if outs[0] != outs[1]:
        k = next(i for i, (a, b) in enumerate(zip(*outs)) if a != b)
        ctx.fail(f'chain {case["chain"]} with the same seeded generator gives different results (entry {k}: 0-2 steps, 3 observation) when the global generators were seeded {case["lib"][0]} vs {case["lib"][1]}',
                 {'kind': 'same_process'})
    d = sd
    partners = len(M.telepod_partners(d)) if M.obj_type(M.cell(d, (d['agent'][0], d['agent'][1]))) == 'Telepod' and 'teleport' in case['chain'] else 0
    moved = outs[0][0] != sd
    ctx.ev.case(case, nt=moved, classes=['obs:' + case['obs']] + (['teleport_choice>=2'] if partners >= 2 else []) + (['obstacles_move'] if 'move_obstacles' in case['chain'] and M.find(sd, lambda o: o == 'M') else []))


# ------------------------------------------------------------------ (3c) a component that raises


def enum_raising(tier, shard, nshards):
    for i, (where, via) in enumerate([(w, v) for w in ('transition', 'reward') for v in ('step', 'functional')]):
        if i % nshards == shard:
            yield {'where': where, 'via': via, 'seed': 11 + i}


def oracle_raising(case, ctx):
    """a user-defined transition / reward function raises for one action; the caller catches the exception and carries on with the
    same seeded environment.  The global generators (the library's own default generator included) are exactly as before, right after
    the failed call and after further steps of the seeded environment: nothing of a seeded environment ever reaches them"""
    from gym_gridverse.action import Action
    from gym_gridverse.envs.gridworld import GridWorld
    from gym_gridverse.envs.transition_functions import transition_function_registry as TREG

    class Boom(RuntimeError):
        pass

    base = envs.build_shipped('gv_dynamic_obstacles.7x7.yaml', case['seed'])
    acts = list(base.action_space.actions)
    bad, good = acts[-1], acts[:3]

    def transition(state, action, *, rng=None):
        if case['where'] == 'transition' and action is bad:
            raise Boom('user transition failed')
        for name in ('move_agent', 'turn_agent', 'move_obstacles'):
            TREG[name](state, action, rng=rng)

    def reward(state, action, next_state, *, rng=None):
        if case['where'] == 'reward' and action is bad:
            raise Boom('user reward failed')
        return 0.0

    e = GridWorld(base.state_space, base.action_space, base.observation_space, base._reset_function, transition, base._observation_function, reward, envs.mk_term({'name': 'reach_exit'}))
    e.set_seed(case['seed'])
    reset_gv_rng(5)
    np.random.seed(5)
    random.seed(5)
    e.reset()
    e.step(good[0])
    before = snap()
    for k in range(2):
        try:
            if case['via'] == 'step':
                e.step(bad)
            else:
                e.functional_step(e.state, bad)
        except Boom:
            pass
        else:
            raise HarnessError('the user component did not raise')
        for a in good:
            e.step(a)
            _ = e.observation
        after = snap()
        for nm, b_, a_ in zip(('library generator', 'numpy.random', 'random'), before, after):
            if a_ != b_:
                ctx.fail(f'after a user {case["where"]} function raised inside {case["via"]} (caught by the caller) and the seeded environment was stepped on, the global {nm} is no longer '
                         f'in the state it was in before', {'kind': 'global_rng', 'which': nm})
    ctx.ev.case(case, nt=True, classes=['raises:' + case['where'], 'via:' + case['via']])


# ------------------------------------------------------------------ (4) reset functions through the Python API, across interpreters


def reset_digest(fn, p, seed, n):
    """n initial states of fn(**p) drawn from one generator seeded `seed`; parameters converted as a Python caller would pass
    them (colours as a *set*, which is what the signatures of memory / memory_rooms ask for)"""
    import hashlib
    from vgv.props import c13
    from gym_gridverse import grid_object as go
    from gym_gridverse.envs.reset_functions import reset_function_registry as REG
    from gym_gridverse.geometry import Shape
    from gym_gridverse.rng import make_rng
    kw = dict(p)
    kw['shape'] = Shape(*p['shape'])
    if 'layout' in kw:
        kw['layout'] = tuple(kw['layout'])
    if 'colors' in kw:
        kw['colors'] = set(go.Color[c] for c in kw['colors'])
    if fn == 'crossing':
        kw['object_type'] = go.Wall
    rng = make_rng(seed)
    out = []
    for _ in range(n):
        try:
            out.append(objs.canon_state(REG[fn](**kw, rng=rng)))
        except ValueError:
            out.append('ValueError')
    return hashlib.sha256(json.dumps(out, sort_keys=True).encode()).hexdigest(), out


def strat_reset_x(tier):
    from vgv.props import c13
    fns = ['memory', 'memory_rooms', 'memory', 'memory_rooms'] + list(c13.FUNCTIONS)
    return st.sampled_from(fns).flatmap(lambda fn: st.fixed_dictionaries({
        'fn': st.just(fn), 'p': c13.params_s(fn, tier), 'seed': st.integers(0, 2**31), 'n': st.integers(1, 4)}))


def oracle_reset_x(case, ctx):
    fn, p, seed, n = case['fn'], case['p'], case['seed'], case['n']
    mine, states = reset_digest(fn, p, seed, n)
    if all(s == 'ValueError' for s in states):
        ctx.ev.count(fn + ':rejected')
        return
    for hs in _hashseeds(ctx.tier):
        ans = ask(hs, {'fn': fn, 'p': p, 'seed': seed, 'n': n})
        if 'error' in ans:
            ctx.fail(f'{fn}({p}) seed {seed}: worker with PYTHONHASHSEED={hs} failed: {ans["error"]}', {'kind': 'worker_error'})
        elif ans['digest'][0] != mine:
            theirs = ans['digest'][1]
            k = next((i for i, (a, b) in enumerate(zip(states, theirs)) if a != b), 0)
            diff = 'ValueError vs state' if 'ValueError' in (states[k], theirs[k]) else \
                [(q, M.cell(states[k], q), M.cell(theirs[k], q)) for q in M.positions(states[k]) if M.cell(states[k], q) != M.cell(theirs[k], q)][:4]
            ctx.fail(f'{fn}({p}) called through the Python API with seed {seed}: initial state number {k} differs between interpreter processes '
                     f'(PYTHONHASHSEED=0 here vs {hs}): {diff}', {'kind': 'cross_process', 'reset': fn})
    ncol = len(p.get('colors', []))
    ctx.ev.case(case, nt=True, classes=['reset:' + fn] + (['colour_set>=3'] if ncol >= 3 else []))


CHECKS = [
    Check('interleaving_machine', oracle_machine, machine=machine, examples={'quick': 60, 'thorough': 200}, steps={'quick': 40, 'thorough': 60},
          shards={'quick': 6, 'thorough': 16},
          rule='2-3 live seeded environments + one unseeded, interleaved with debug toggles and draws/reseeds of numpy.random, random and the library generator; each slot replayed alone (debug on and off); globals snapshotted around every seeded op',
          required=['switches>=2', 'randomness_consumed', 'noise', 'reseeded']),
    Check('cross_process', oracle_prog, strategy=strat_prog, examples={'quick': 60, 'thorough': 200}, shards={'quick': 4, 'thorough': 16},
          rule='generated programs on shipped and perturbed configurations: digest here (PYTHONHASHSEED=0, a process that has run many other environments) == digests from persistent worker interpreters with other hash seeds and debug flags',
          required=['randomness_consumed', 'perturbed']),
    Check('process_history', oracle_history, strategy=strat_history, examples={'quick': 25, 'thorough': 100}, shards={'quick': 8, 'thorough': 16},
          rule='1-3 environments of the same (perturbed) configuration with other seeds are run first in this process, then the program: trace == trace of an interpreter started for the program alone (other PYTHONHASHSEED)',
          required=['relative_raytracing', 'perturbed']),
    Check('cross_process_shipped', oracle_prog, enumerate=enum_shipped, shards={'quick': 4, 'thorough': 8},
          rule='all 22 shipped configurations x 3 (10 thorough) seeds x a fixed 17-op program, across worker interpreters'),
    Check('reset_functions', oracle_reset, strategy=strat_reset, examples={'quick': 800, 'thorough': 3000}, shards={'quick': 4, 'thorough': 16},
          rule='8 reset functions x parameters (as in C13, beyond the shipped ones) x seeds x 1-6 resets, run twice with differently seeded global generators: identical states, globals untouched',
          required=['reset:empty', 'reset:memory_rooms', 'resets_differ']),
    Check('components_rng', oracle_components, strategy=strat_components, examples={'quick': 300, 'thorough': 1200}, shards={'quick': 2, 'thorough': 16},
          rule='generated state (agent on a telepod with 2-3 same-coloured partners in half of the cases; obstacles) x chain x action x observation function with a seeded generator, run twice under differently seeded global generators: identical results, globals untouched',
          required=['teleport_choice>=2', 'obstacles_move', 'obs:stochastic_raytracing']),
    Check('raising_components', oracle_raising, enumerate=enum_raising, shards={'quick': 2, 'thorough': 2}, exhaustive=True,
          rule='a seeded GridWorld whose user-defined transition / reward function raises for one action, through step and functional_step; the caller catches and carries on: the global generators stay exactly as they were',
          required=['raises:transition', 'raises:reward']),
    Check('cross_process_reset_functions', oracle_reset_x, strategy=strat_reset_x, examples={'quick': 60, 'thorough': 200}, shards={'quick': 4, 'thorough': 16},
          rule='reset functions called through the Python API (colours passed as a set) x parameters (as in C13) x seeds x 1-4 states from one generator: identical in worker interpreters with other PYTHONHASHSEED values',
          required=['reset:memory', 'reset:memory_rooms', 'colour_set>=3']),
]
