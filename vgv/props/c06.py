"""C06 -- hidden cells carry no information (occlusion is non-interfering and monotone)."""
import copy
import itertools
from collections import deque

import numpy as np
from hypothesis import strategies as st

from vgv import gen, model as M, objs, obsutil
from vgv import prelude
from vgv.framework import Check, guarded

from gym_gridverse.envs.visibility_functions import visibility_function_registry as VIS
from gym_gridverse.geometry import Position
from gym_gridverse.rng import make_rng

RULE = ('non-trivial (random part) = at least one hidden in-view cell and a replacement that flips opacity, or a shown opaque cell other than '
        "the agent's that is cleared; (pattern part) = patterns with at least one opaque cell.")
ASSUMPTIONS = ['the exact visible set is not specified by the property and is not asserted',
               'partially_occluded only with area.ymax == 0']

OCC = ['partially_occluded', 'raytracing']
REPL = ['W', 'F', 'D:CLOSED:RED', 'D:OPEN:RED', 'K:BLUE', 'E:NONE', 'B(W)', 'M']


def linked(shown, transparent, root):
    """cells reachable from root through 8-adjacent shown cells, expanding only from transparent ones"""
    reach = {root}
    q = deque([root]) if transparent(root) else deque()
    while q:
        p = q.popleft()
        for dy in (-1, 0, 1):
            for dx in (-1, 0, 1):
                n = (p[0] + dy, p[1] + dx)
                if n != p and n in shown and n not in reach:
                    reach.add(n)
                    if transparent(n):
                        q.append(n)
    return reach


# ------------------------------------------------------------------ (a) random states


@st.composite
def strat(draw, tier):
    space = draw(gen.space_s(must=('Floor', 'Wall')))
    sd = draw(gen.state_s(space, min_hw=2, max_hw=7 if tier == 'quick' else 9, floor_weight=2))
    f = draw(st.sampled_from(OCC))
    area = draw(gen.area_s(max_ext=4, ymax_zero=(f == 'partially_occluded')))
    if draw(st.integers(0, 5)) == 0:
        h, w = M.shape(sd)
        if f == 'partially_occluded':
            sd['agent'][0] = h - 1
        y, x = sd['agent'][0], sd['agent'][1]
        sd['agent'][2] = 'F'
        area = [[-y, h - 1 - y], [-x, w - 1 - x]]      # the view that covers the grid exactly
    return {'state': sd, 'area': area, 'f': f, 'picks': draw(st.lists(st.integers(0, 10**6), min_size=3, max_size=3)),
            'repl': draw(st.lists(st.sampled_from(REPL), min_size=3, max_size=3)), 'seed': draw(gen.seed_s)}


_FAULTY = []


def faulty_world(sd, p, area, seed):
    """observe `sd` with a user-defined transparent object at world cell p whose blocks_vision raises once armed (it constructs fine)"""
    from gym_gridverse import grid_object as go
    from gym_gridverse.geometry import Position
    if not _FAULTY:
        class FailingPane(go.Floor, register=False):
            armed = False

            @property
            def blocks_vision(self):
                if self.armed:
                    raise RuntimeError('user-defined grid object: blocks_vision failed')
                return False
        _FAULTY.append(FailingPane)
    if not M.in_grid(sd, p) or p == tuple(sd['agent'][:2]):
        return
    S = objs.build_state(sd)
    pane = _FAULTY[0]()
    S.grid[Position(*p)] = pane
    pane.armed = True
    for name in ('stochastic_raytracing', 'raytracing', 'partially_occluded'):
        try:
            obsutil.observe(name, S, area, seed)
        except Exception:  # noqa: BLE001 -- expected; decides nothing
            pass


def oracle(case, ctx):
    prelude.door_first(ctx)
    sd, area, f = case['state'], case['area'], case['f']
    S = objs.build_state(sd)
    od = guarded(ctx, f'observation {f}', obsutil.observe, f, S, area)
    vh, vw = M.area_shape(area)
    anchor = (-area[0][0], -area[1][0])
    sig = {'kind': 'occlusion', 'f': f}
    # looking must not change what is there: the same State object observed again gives the same answer and is unchanged
    again = guarded(ctx, f'observation {f}', obsutil.observe, f, S, area)
    if again != od or objs.canon_state(S) != sd:
        ctx.fail(f'{f}: observing the same State object twice gives different observations / changes the state (area {area}, agent {sd["agent"][:3]}, grid {M.shape(sd)})', sig)
    sh = obsutil.shown(od)
    world_of = {(i, j): M.view_cell_to_world(sd, area, i, j) for i in range(vh) for j in range(vw)}
    # (2) own cell visible
    if anchor not in sh:
        ctx.fail(f"{f}: the agent's own cell is hidden (area {area}, agent {sd['agent'][:3]})", sig)
    # (3) linked through shown transparent cells
    transp = lambda c: not M.blocks_vision(od['grid'][c[0]][c[1]])  # noqa: E731
    reach = linked(sh, transp, anchor)
    if sh - reach:
        ctx.fail(f'{f}: shown cell(s) {sorted(sh - reach)[:4]} not linked to the agent by adjacent shown transparent cells (area {area}, agent {sd["agent"][:3]})', sig)
    # (1) non-interference: hidden in-view cells and out-of-view cells
    hidden_world = [world_of[c] for c in sorted(set(world_of) - sh) if M.in_grid(sd, world_of[c])]
    inview = {p for p in world_of.values()}
    outside = [p for p in M.positions(sd) if p not in inview]
    cands = hidden_world + outside
    flips = 0
    if cands:
        allv = copy.deepcopy(sd)
        for k, r in zip(case['picks'], case['repl']):
            p = cands[k % len(cands)]
            if p == tuple(sd['agent'][:2]):
                continue
            v = copy.deepcopy(sd)
            v['grid'][p[0]][p[1]] = r
            allv['grid'][p[0]][p[1]] = r
            flips += M.blocks_vision(r) != M.blocks_vision(M.cell(sd, p)) and p in hidden_world
            o2 = guarded(ctx, f'observation {f}', obsutil.observe, f, v, area)
            if o2 != od:
                kind = 'hidden' if p in hidden_world else 'out-of-view'
                ctx.fail(f'{f}: replacing the {kind} world cell {p} ({M.cell(sd, p)} -> {r}) changed the observation (area {area}, agent {sd["agent"][:3]}, grid {M.shape(sd)})', sig)
        for p in cands:  # all at once
            if p != tuple(sd['agent'][:2]):
                allv['grid'][p[0]][p[1]] = case['repl'][(p[0] + p[1]) % 3]
        o3 = guarded(ctx, f'observation {f}', obsutil.observe, f, allv, area)
        if o3 != od:
            ctx.fail(f'{f}: replacing all hidden and out-of-view cells at once changed the observation (area {area}, agent {sd["agent"][:3]})', sig)
    # (4) monotone: clearing a shown opaque cell never hides a shown cell
    opaque_shown = [c for c in sorted(sh) if c != anchor and not transp(c)]
    cleared = 0
    for k in case['picks'][:2]:
        if not opaque_shown:
            break
        c = opaque_shown[k % len(opaque_shown)]
        p = world_of[c]
        v = copy.deepcopy(sd)
        v['grid'][p[0]][p[1]] = 'F'
        o4 = guarded(ctx, f'observation {f}', obsutil.observe, f, v, area)
        lost = sh - obsutil.shown(o4)
        cleared += 1
        if lost:
            ctx.fail(f'{f}: making the shown opaque cell {c} (world {p}, {M.cell(sd, p)}) transparent hides previously shown cell(s) {sorted(lost)[:4]}', sig)
    # (5) stochastic variant bracketed by deterministic ones
    cl = ['f:' + f]
    if f == 'raytracing' and case['seed'] % 3 == 0 and len(sh) > 1:
        # a user-defined object whose blocks_vision fails stands in a lit cell of the same world: the observation functions raise, the
        # caller carries on.  Nothing is decided here; what follows (other worlds, same view) must not have been touched by the failure
        faulty_world(sd, world_of[sorted(sh - {anchor})[case['picks'][0] % (len(sh) - 1)]], area, case['seed'])
        cl.append('after_failing_user_object')
    if f == 'raytracing':
        st_ = guarded(ctx, 'stochastic_raytracing', obsutil.observe, 'stochastic_raytracing', sd, area, case['seed'])
        lit = guarded(ctx, 'raytracing(relative, 1.0)', obsutil.observe, None, sd, area, None, 'raytracing', {'absolute_counts': False, 'threshold': 1.0})
        s_sh, l_sh = obsutil.shown(st_), obsutil.shown(lit)
        if s_sh - sh:
            ctx.fail(f'stochastic_raytracing shows cell(s) {sorted(s_sh - sh)[:4]} that the deterministic ray-traced view cannot show (seed {case["seed"]})', {'kind': 'stochastic_bounds'})
        if l_sh - s_sh:
            ctx.fail(f'stochastic_raytracing hides cell(s) {sorted(l_sh - s_sh)[:4]} that every ray reaches lit (seed {case["seed"]})', {'kind': 'stochastic_bounds'})
        for c in s_sh:
            if st_['grid'][c[0]][c[1]] != od['grid'][c[0]][c[1]]:
                ctx.fail('stochastic_raytracing shows a different object than raytracing in a shown cell', {'kind': 'stochastic_bounds'})
        cl.append('stochastic_strict_subset' if s_sh != sh else 'stochastic_equal')
    if hidden_world:
        cl.append('hidden_in_view')
    if flips:
        cl.append('opacity_flip')
    if cleared:
        cl.append('cleared_opaque')
    ctx.ev.case(case, nt=(bool(hidden_world) and flips > 0) or cleared > 0, classes=cl, key=[sd, area, f])


# ------------------------------------------------------------------ (b) exhaustive opacity patterns at visibility-function level


VIEWS = {'quick': [(1, 1), (1, 3), (2, 3), (3, 3), (2, 5), (4, 3)], 'thorough': [(1, 1), (2, 3), (3, 3), (4, 3), (3, 5), (5, 3), (2, 7)]}


def enum_patterns(tier, shard, nshards):
    i = 0
    for (h, w) in VIEWS[tier]:
        for bits in itertools.product([0, 1], repeat=h * w):
            i += 1
            if i % nshards == shard:
                yield {'h': h, 'w': w, 'bits': list(bits)}


def vis_of(name, rows, pos):
    g = objs.build_grid(rows)
    v = VIS[name](g, Position(*pos), rng=make_rng(0))
    return {(i, j) for i in range(len(rows)) for j in range(len(rows[0])) if bool(v[i, j])}, v


def oracle_pattern(case, ctx):
    h, w, bits = case['h'], case['w'], case['bits']
    rows = [['W' if bits[i * w + j] else 'F' for j in range(w)] for i in range(h)]
    pos = (h - 1, w // 2)
    for f in OCC:
        sig = {'kind': 'occlusion_pattern', 'f': f}
        sh, arr = vis_of(f, rows, pos)
        if arr.shape != (h, w) or arr.dtype != bool:
            ctx.fail(f'{f}: visibility array has shape {arr.shape} dtype {arr.dtype}', sig)
        if pos not in sh:
            ctx.fail(f'{f}: own cell hidden in pattern {rows}', sig)
        transp = lambda c: rows[c[0]][c[1]] == 'F'  # noqa: E731
        reach = linked(sh, transp, pos)
        if sh - reach:
            ctx.fail(f'{f}: cells {sorted(sh - reach)[:4]} visible without a chain of adjacent visible transparent cells in pattern {rows}', sig)
        for i in range(h):
            for j in range(w):
                if (i, j) == pos:
                    continue
                flipped = [list(r) for r in rows]
                flipped[i][j] = 'F' if rows[i][j] == 'W' else 'W'
                sh2, _ = vis_of(f, flipped, pos)
                if (i, j) not in sh:
                    if sh2 != sh:
                        ctx.fail(f'{f}: flipping the opacity of hidden cell {(i, j)} changes visibility in pattern {rows}: {sorted(sh ^ sh2)[:4]}', sig)
                elif rows[i][j] == 'W' and sh - sh2:
                    ctx.fail(f'{f}: clearing visible opaque cell {(i, j)} hides {sorted(sh - sh2)[:4]} in pattern {rows}', sig)
    # stochastic bounds on the same pattern
    det, _ = vis_of('raytracing', rows, pos)
    g = objs.build_grid(rows)
    lit_arr = VIS['raytracing'](g, Position(*pos), absolute_counts=False, threshold=1.0)
    lit = {(i, j) for i in range(h) for j in range(w) if bool(lit_arr[i, j])}
    for seed in range(4):
        sv = VIS['stochastic_raytracing'](g, Position(*pos), rng=make_rng(seed * 7919 + sum(bits)))
        s = {(i, j) for i in range(h) for j in range(w) if bool(sv[i, j])}
        if s - det or lit - s:
            ctx.fail(f'stochastic_raytracing outside its deterministic bounds in pattern {rows}: extra {sorted(s - det)[:3]}, missing {sorted(lit - s)[:3]}', {'kind': 'stochastic_bounds'})
    ctx.ev.case(case, nt=any(bits), classes=[f'view{h}x{w}'])


# ------------------------------------------------------------------ (b2) the stochastic variant under extreme (legal) random draws


@st.composite
def strat_extreme(draw, tier):
    space = draw(gen.space_s(must=('Floor', 'Wall')))
    sd = draw(gen.state_s(space, min_hw=2, max_hw=7, floor_weight=2))
    return {'state': sd, 'area': draw(gen.area_s(max_ext=3)), 'mode': draw(st.sampled_from(['low', 'high'])), 'prefix': draw(st.sampled_from([0, 1, 1, 3])),
            'salt': draw(st.integers(0, 5))}


def oracle_extreme(case, ctx):
    """every value Generator.random can return is a possible draw: 0.0 must not reveal cells no ray reaches lit, and the
    largest double below 1 must not hide cells that every ray reaches lit"""
    prelude.door_first(ctx)
    import functools
    from vgv.advrng import AdvRng
    from gym_gridverse.envs import observation_functions as obs_fs
    sd, area = case['state'], case['area']
    det = guarded(ctx, 'raytracing', obsutil.observe, 'raytracing', sd, area)
    lit = guarded(ctx, 'raytracing(relative, 1.0)', obsutil.observe, None, sd, area, None, 'raytracing', {'absolute_counts': False, 'threshold': 1.0})
    f = functools.partial(obs_fs.observation_function_registry['stochastic_raytracing'], area=objs.build_area(area))
    rng = AdvRng(case['mode'], case['prefix'], case['salt'])
    st_ = objs.canon_state(guarded(ctx, 'stochastic_raytracing', f, objs.build_state(sd), rng=rng))
    s_sh, d_sh, l_sh = obsutil.shown(st_), obsutil.shown(det), obsutil.shown(lit)
    draws = f'{case["mode"]} draws for the first {case["prefix"]} call(s)'
    if s_sh - d_sh:
        ctx.fail(f'stochastic_raytracing shows cell(s) {sorted(s_sh - d_sh)[:4]} that no ray reaches lit ({draws}: a draw of exactly 0.0 is a legal outcome of Generator.random)',
                 {'kind': 'stochastic_bounds', 'extreme': 'zero_draw'})
    if l_sh - s_sh:
        ctx.fail(f'stochastic_raytracing hides cell(s) {sorted(l_sh - s_sh)[:4]} that every ray reaches lit ({draws})', {'kind': 'stochastic_bounds', 'extreme': 'top_draw'})
    ctx.ev.case(case, nt=(d_sh != l_sh), classes=['mode:' + case['mode'], f'prefix={case["prefix"]}'] + (['dark_cells_in_view'] if len(d_sh) < M.area_shape(area)[0] * M.area_shape(area)[1] else []))


# ------------------------------------------------------------------ (c) large views (ray counts beyond small-integer ranges)

LARGE = {'quick': [(9, 9), (11, 11), (13, 13), (15, 15)], 'thorough': [(9, 9), (11, 11), (13, 13), (15, 15), (17, 17), (7, 31), (31, 7), (21, 21), (15, 31)]}


# views of more than 1000 cells: an interior-only wall block first, the empty view second (in the same process)
HISTORY = {'quick': [(33, 33), (25, 41)], 'thorough': [(33, 33), (25, 41), (41, 25), (36, 36)]}


def enum_large(tier, shard, nshards):
    i = 0
    for (h, w) in HISTORY[tier]:
        i += 1
        if i % nshards == shard:
            yield {'h': h, 'w': w, 'k': 'interior_then_empty'}
        for c in range(1, 10 if tier == 'quick' else 40):
            i += 1
            if i % nshards == shard:
                yield {'h': h, 'w': w, 'k': f'clutter{c}'}
    for (h, w) in [(15, 15), (33, 33)] if tier == 'quick' else [(15, 15), (21, 21), (33, 33), (25, 41)]:
        for part in range(8):
            i += 1
            if i % nshards == shard:
                yield {'h': h, 'w': w, 'k': 'single_lit_ray', 'part': part, 'parts': 8}
    for (h, w) in LARGE[tier]:
        for k in range(4 if tier == 'quick' else 8):
            i += 1
            if i % nshards == shard:
                yield {'h': h, 'w': w, 'k': k}


def oracle_large(case, ctx):
    h, w, k = case['h'], case['w'], case['k']
    if k == 'single_lit_ray':
        # the extreme case of counting rays: a cell that many rays cross but exactly one reaches lit (all others are blocked by walls
        # placed on them before the cell).  One world per distinct number of crossing rays.  If such a cell is reported hidden, the light
        # still passes through it, so replacing it by a wall must not change the observation -- which it does.
        from gym_gridverse.utils import raytracing as rt
        from gym_gridverse.geometry import Area
        pos = (h - 1, w // 2)
        rays = [[(q.y, q.x) for q in r] for r in rt.cached_compute_rays_fancy(Position(*pos), Area((0, h - 1), (0, w - 1)))]
        through = {}
        for ri, r in enumerate(rays):
            for ci, c in enumerate(r):
                through.setdefault(c, []).append((ri, ci))
        by_n = {}
        for c, lst in through.items():
            if c != pos and len(lst) >= 2:
                by_n.setdefault(len(lst), c)
        targets = [by_n[n] for n in sorted(by_n)]
        mine = [t for idx, t in enumerate(targets) if idx % case['parts'] == case['part']]
        if tier_cap := (24 if ctx.tier == 'quick' else 400):
            mine = mine[:tier_cap]
        built = 0
        for t in mine:
            lst = through[t]
            ok = False
            for (keep_ri, keep_ci) in lst:          # which ray stays lit: the first choice for which every other ray can be blocked separately
                keep = set(rays[keep_ri][:keep_ci + 1])
                walls = set()
                ok = True
                for (ri, ci) in lst:
                    if ri == keep_ri:
                        continue
                    blockers = [c for c in rays[ri][1:ci] if c not in keep and c != t]
                    if not blockers:
                        ok = False      # this ray coincides with the kept one up to the target
                        break
                    walls.add(blockers[-1])
                if ok:
                    break
            if not ok:
                continue
            rows = [['W' if (i, j) in walls else 'F' for j in range(w)] for i in range(h)]
            sh, _ = vis_of('raytracing', rows, pos)
            built += 1
            if t not in sh:
                rows2 = [list(r) for r in rows]
                rows2[t[0]][t[1]] = 'W'
                sh2, _ = vis_of('raytracing', rows2, pos)
                if sh2 != sh:
                    ctx.fail(f'raytracing, {h}x{w} view: the cell {t} (crossed by {len(lst)} rays, reached lit by one) is reported hidden, yet replacing it by a wall changes what is shown at '
                             f'{sorted(sh ^ sh2)[:5]}: a hidden cell carried information', {'kind': 'non_interference', 'f': 'raytracing'})
        ctx.ev.case(case, nt=built > 0, classes=[f'view{h}x{w}', 'single_lit_ray_worlds'])
        ctx.ev.count('single_lit_ray_worlds_built', built)
        return
    if isinstance(k, str) and k.startswith('clutter'):
        # a cluttered view of more than 1000 cells: hidden cells that lie among visible ones are replaced by a wall, one at a time --
        # a cell that is not shown carries no information, so the observation must not change
        c = int(k[7:])
        pos = (h - 1, w // 2)
        rows = [['W' if ((i * 7 + j * 13 + c * 5) % (9 + 2 * (c % 7)) == 0 or (c > 9 and (i * i + j * c) % 97 == 0)) and (i, j) != pos else 'F' for j in range(w)] for i in range(h)]
        sh, arr = vis_of('raytracing', rows, pos)
        sig = {'kind': 'occlusion_large', 'f': 'raytracing'}
        if pos not in sh:
            ctx.fail(f"raytracing: the agent's own cell is hidden in a cluttered {h}x{w} view", sig)
        cand = []
        for i in range(h):
            for j in range(w):
                if (i, j) in sh or rows[i][j] != 'F':
                    continue
                near = sum(1 for di in (-1, 0, 1) for dj in (-1, 0, 1) if (di or dj) and (i + di, j + dj) in sh)
                if near >= 4:
                    cand.append((near, i, j))
        cand.sort(reverse=True)
        cand = cand[:12]
        # candidates of another kind: hidden cells that, counting with the library's own rays, some ray reaches lit (light passes on from
        # them, so their content matters to what lies behind)
        from gym_gridverse.utils import raytracing as rt
        from gym_gridverse.geometry import Area
        lit = set()
        for ray in rt.cached_compute_rays_fancy(Position(*pos), Area((0, h - 1), (0, w - 1))):
            for q in ray:
                lit.add((q.y, q.x))
                if rows[q.y][q.x] == 'W':
                    break
        odd = sorted((i, j) for (i, j) in lit - sh if rows[i][j] == 'F')
        cand = [(9, i, j) for (i, j) in odd[:20]] + cand
        for _, i, j in cand:
            rows2 = [list(r) for r in rows]
            rows2[i][j] = 'W'
            sh2, _ = vis_of('raytracing', rows2, pos)
            if sh2 != sh:
                ctx.fail(f'raytracing, cluttered {h}x{w} view: the hidden floor cell {(i, j)} (with visible cells around it) replaced by a wall changes what is shown at '
                         f'{sorted(sh ^ sh2)[:5]}: a hidden cell carried information', {'kind': 'non_interference', 'f': 'raytracing'})
        ctx.ev.case(case, nt=True, classes=[f'view{h}x{w}', 'view>1000cells', 'cluttered_large_view'] + (['hidden_among_visible'] if cand else []) + (['hidden_but_reached_lit'] if odd else []))
        return
    if k == 'interior_then_empty':
        pos = (h - 1, w // 2)
        for f in ('raytracing', 'partially_occluded'):
            for walls in (True, False, True, False):
                rows = [['W' if walls and 5 <= i < h - 5 and 5 <= j < w - 5 and (i + j) % 3 == 0 else 'F' for j in range(w)] for i in range(h)]
                sh, arr = vis_of(f, rows, pos)
                sig = {'kind': 'occlusion_large', 'f': f}
                if pos not in sh:
                    ctx.fail(f"{f}: the agent's own cell is hidden in a {h}x{w} view", sig)
                reach = linked(sh, lambda c: rows[c[0]][c[1]] == 'F', pos)
                if sh - reach:
                    ctx.fail(f'{f}: cells {sorted(sh - reach)[:4]} visible without a chain of visible transparent cells in a {h}x{w} view', sig)
                if not walls and len(sh) != h * w:
                    ctx.fail(f'{f}: an unobstructed {h}x{w} view hides {h * w - len(sh)} cells after a view of the same shape with walls in its interior only was observed in this process', sig)
                if walls and len(sh) == h * w:
                    ctx.fail(f'{f}: walls in the interior of a {h}x{w} view hide nothing (after the empty view of the same shape was observed)', sig)
                arr[...] = False
        ctx.ev.case(case, nt=True, classes=[f'view{h}x{w}', 'view>1000cells'])
        return
    # k = 0: empty view; otherwise a sparse deterministic wall pattern (no RNG of our own)
    rows = [['W' if k and ((i * 7 + j * 13 + k * 5) % (5 + k) == 0) else 'F' for j in range(w)] for i in range(h)]
    pos = (h - 1, w // 2)
    rows[pos[0]][pos[1]] = 'F'
    for f in OCC:
        sh, arr = vis_of(f, rows, pos)
        sig = {'kind': 'occlusion_large', 'f': f}
        if pos not in sh:
            ctx.fail(f"{f}: the agent's own cell is hidden in a {h}x{w} view (pattern {k})", sig)
        reach = linked(sh, lambda c: rows[c[0]][c[1]] == 'F', pos)
        if sh - reach:
            ctx.fail(f'{f}: cells {sorted(sh - reach)[:4]} visible without a chain of visible transparent cells in a {h}x{w} view (pattern {k})', sig)
        if k == 0 and len(sh) != h * w:
            ctx.fail(f'{f}: an unobstructed {h}x{w} view hides {h * w - len(sh)} cells', sig)
    det, _ = vis_of('raytracing', rows, pos)
    g = objs.build_grid(rows)
    lit_arr = VIS['raytracing'](g, Position(*pos), absolute_counts=False, threshold=1.0)
    lit = {(i, j) for i in range(h) for j in range(w) if bool(lit_arr[i, j])}
    if pos not in lit:
        ctx.fail(f'relative ray-traced view (threshold 1.0) hides the own cell in a {h}x{w} view', {'kind': 'occlusion_large', 'f': 'raytracing'})
    sv = VIS['stochastic_raytracing'](g, Position(*pos), rng=make_rng(k))
    s = {(i, j) for i in range(h) for j in range(w) if bool(sv[i, j])}
    if s - det or lit - s:
        ctx.fail(f'stochastic_raytracing outside its deterministic bounds in a {h}x{w} view (pattern {k}): extra {sorted(s - det)[:3]}, missing {sorted(lit - s)[:3]}', {'kind': 'stochastic_bounds'})
    ctx.ev.case(case, nt=True, classes=[f'view{h}x{w}'])


CHECKS = [
    Check('non_interference', oracle, strategy=strat, examples={'quick': 900, 'thorough': 2500}, shards={'quick': 4, 'thorough': 16},
          rule='state x area x {partially_occluded, raytracing}: replacing hidden / out-of-view world cells (one at a time with objects of either opacity, and all at once) leaves the observation unchanged; '
               'own cell shown; shown cells linked; clearing a shown opaque cell hides nothing; stochastic view between its deterministic bounds',
          required=['hidden_in_view', 'opacity_flip', 'cleared_opaque', 'f:raytracing', 'f:partially_occluded', 'stochastic_strict_subset']),
    Check('opacity_patterns', oracle_pattern, enumerate=enum_patterns, shards={'quick': 8, 'thorough': 16}, exhaustive=True,
          rule='all wall/floor patterns of views 1x1,1x3,2x3,3x3,2x5,4x3 (thorough: up to 3x5/5x3/2x7 = 2^15 patterns) at visibility-function level, agent at the bottom centre: '
               'own cell, linkage, flipping any hidden cell, clearing any visible opaque cell, stochastic bounds'),
    Check('large_views', oracle_large, enumerate=enum_large, shards={'quick': 8, 'thorough': 16},
          rule='views 9x9..15x15 (thorough: up to 21x21, 7x31, 31x7, 15x31) empty and with sparse wall patterns: own cell, linkage, unobstructed view shows everything, stochastic bounds; views of 33x33 and 25x41 cells: walls in the interior only, then empty, alternating in one process',
          required=['view>1000cells', 'cluttered_large_view', 'single_lit_ray_worlds', 'single_lit_ray_worlds_built']),
    Check('stochastic_extremes', oracle_extreme, strategy=strat_extreme, examples={'quick': 250, 'thorough': 1000}, shards={'quick': 2, 'thorough': 8},
          rule='stochastic_raytracing driven by an adversarial Generator whose draws are legal extremes (exactly 0.0, the largest double below 1) : shown set between its deterministic bounds',
          required=['mode:low', 'mode:high', 'dark_cells_in_view']),
]
