"""C16 -- numeric representations are faithful: lossless, positional and well-separated."""
import copy
import itertools

import numpy as np
from hypothesis import strategies as st

from vgv import envs, gen, model as M, objs, reps
from vgv.framework import Check, guarded

from gym_gridverse.envs.transition_functions import transition_function_registry as REG
from gym_gridverse.utils.fast_copy import fast_copy

RULE = ('non-trivial = a pair of members differing in exactly one component (near-collision), or a space with >= 2 types having several '
        'statuses/colours; distinct by (space, pair) / by space.')
ASSUMPTIONS = ['observations are generated facing forward (their heading is not encoded and is forward by definition)',
               'boxes compare equal regardless of content in the repository and encode equally - consistent with the property, not reported',
               'the no-gaps clause of the compact encoding is asserted only when every declared colour can be carried by some declared type']

EDITS = ['none', 'cell_object', 'cell_status', 'cell_colour', 'agent_cell', 'heading', 'held', 'independent', 'swap_cells']


@st.composite
def strat_pair(draw, tier):
    kind = draw(st.sampled_from(['state', 'obs']))
    space = draw(gen.space_s(must=(), allow_box=(kind == 'obs')))
    if not space['types']:
        space['types'] = ['Floor']
    m = 5 if tier == 'quick' else 7
    shape = (draw(st.integers(2, m)), draw(st.integers(2, m))) if kind == 'state' else (draw(st.integers(1, m)), draw(st.sampled_from([1, 3, 5])))
    d1 = draw(gen.state_s(space, shape=shape, floor_weight=0, depth=1))
    big = draw(st.integers(0, 5)) == 0
    if big:
        # a large pair (positions past 127 / 255) tiled from the small one; the edits below address the large grid
        small = shape
        shape = draw(gen.big_shape_s(kind))
        d1 = gen.grow(d1, *shape)
        d1['agent'][0], d1['agent'][1] = draw(st.integers(0, shape[0] - 1)), draw(st.integers(0, shape[1] - 1))
    if kind == 'obs':
        d1['agent'][2] = 'F'
    edit = draw(st.sampled_from(EDITS))
    d2 = copy.deepcopy(d1)
    y, x = draw(st.integers(0, shape[0] - 1)), draw(st.integers(0, shape[1] - 1))
    ex = reps.all_objects(space, kind)
    if edit == 'cell_object':
        d2['grid'][y][x] = draw(st.sampled_from(ex))
    elif edit in ('cell_status', 'cell_colour') and 'Door' in space['types']:
        s0, c0 = draw(st.sampled_from(objs.STATUSES)), draw(st.sampled_from(space['colors']))
        d1['grid'][y][x] = f'D:{s0}:{c0}'
        d2 = copy.deepcopy(d1)
        if edit == 'cell_status':
            d2['grid'][y][x] = f'D:{draw(st.sampled_from(objs.STATUSES))}:{c0}'
        else:
            d2['grid'][y][x] = f'D:{s0}:{draw(st.sampled_from(space["colors"]))}'
    elif edit == 'agent_cell':
        d2['agent'][0], d2['agent'][1] = y, x
    elif edit == 'heading' and kind == 'state':
        d2['agent'][2] = draw(gen.heading_s)
    elif edit == 'held':
        d2['agent'][3] = draw(st.sampled_from([o for o in ex if o != 'H'] + ['_']))
    elif edit == 'independent':
        d2 = draw(gen.state_s(space, shape=small if big else shape, floor_weight=0, depth=1))
        if big:
            d2 = gen.grow(d2, *shape)
        if kind == 'obs':
            d2['agent'][2] = 'F'
    elif edit == 'swap_cells':
        y2, x2 = draw(st.integers(0, shape[0] - 1)), draw(st.integers(0, shape[1] - 1))
        d2['grid'][y][x], d2['grid'][y2][x2] = d2['grid'][y2][x2], d2['grid'][y][x]
    return {'kind': kind, 'space': space, 'd1': d1, 'd2': d2, 'edit': edit}


def ndiff(d1, d2):
    n = sum(1 for r1, r2 in zip(d1['grid'], d2['grid']) for a, b in zip(r1, r2) if a != b)
    n += (d1['agent'][:2] != d2['agent'][:2]) + (d1['agent'][2] != d2['agent'][2]) + (d1['agent'][3] != d2['agent'][3])
    return n


def oracle_pair(case, ctx):
    kind, space, d1, d2 = case['kind'], case['space'], case['d1'], case['d2']
    shape = M.shape(d1)
    build = objs.build_state if kind == 'state' else objs.build_observation
    s1, s2 = build(d1), build(d2)
    equal = guarded(ctx, '==', lambda: s1 == s2)
    if equal and hash(s1.grid) != hash(s2.grid) or equal and hash(s1.agent) != hash(s2.agent):
        ctx.fail(f'equal {kind}s hash differently', {'kind': 'hash'})
    for name in reps.NAMES:
        rep = reps.make_rep(kind, name, shape, space)
        a1, a2 = reps.convert(kind, rep, d1), reps.convert(kind, rep, d2)
        # consumers post-process what they are given (normalisation in place, masking): the encoding of a member must not depend on it
        mine = reps.convert(kind, rep, d1)
        for v in mine.values():
            if v.flags.writeable:
                v -= 7
        for other_rep in (rep, reps.make_rep(kind, name, shape, space)):
            again = reps.convert(kind, other_rep, d1)
            if not reps.arrays_equal(again, a1):
                bad = [k for k in a1 if k not in again or not np.array_equal(again[k], a1[k])]
                ctx.fail(f'{kind}/{name}: the representation of the same {kind} changed (keys {bad}) after a caller modified, in place, the arrays returned by an earlier convert',
                         {'kind': 'lossless', 'rep': name, 'aspect': 'shared_arrays'})
        same = reps.arrays_equal(a1, a2)
        if same != bool(equal):
            ctx.fail(f'{kind}/{name}: representations are {"equal" if same else "different"} but the {kind}s are {"equal" if equal else "different"} (edit {case["edit"]}); '
                     f'agents {d1["agent"]} / {d2["agent"]}', {'kind': 'lossless', 'rep': name})
        # positional: the entry for cell (y, x) is the item-channel encoding of the object in that cell
        grid = a1['grid']
        if grid.shape != (shape[0], shape[1], 3):
            ctx.fail(f'{kind}/{name}: grid array shape {grid.shape}', {'kind': 'positional'})
        enc = {}
        for y in range(shape[0]):
            for x in range(shape[1]):
                o = d1['grid'][y][x]
                if o not in enc:
                    if o == 'H':
                        enc[o] = None
                    else:
                        probe = {'grid': d1['grid'], 'agent': d1['agent'][:3] + [o]}
                        enc[o] = reps.convert(kind, rep, probe)['item']
                if enc[o] is not None and not np.array_equal(grid[y, x], enc[o]):
                    ctx.fail(f'{kind}/{name}: grid[{y},{x}] = {grid[y, x].tolist()} but {o} is encoded as {enc[o].tolist()} in the item channel', {'kind': 'positional', 'rep': name})
                if name == 'default' and tuple(int(v) for v in grid[y, x]) != M.triple(o):
                    ctx.fail(f'{kind}/default: grid[{y},{x}] = {grid[y, x].tolist()} for {o}, documented (type, status, colour) = {M.triple(o)}', {'kind': 'default_triple'})
        if name == 'default' and tuple(int(v) for v in a1['item']) != M.triple(d1['agent'][3]):
            ctx.fail(f'{kind}/default: item = {a1["item"].tolist()} for {d1["agent"][3]}, documented {M.triple(d1["agent"][3])}', {'kind': 'default_triple'})
        mark = a1['agent_id_grid']
        if mark.shape != shape or int(mark.sum()) != 1 or int(mark[d1['agent'][0], d1['agent'][1]]) != 1 or set(np.unique(mark)) - {0, 1}:
            ctx.fail(f'{kind}/{name}: agent marker grid is not a single 1 at the agent cell {d1["agent"][:2]}', {'kind': 'agent_marker'})
    # a copy equals and hashes like its original
    c = fast_copy(s1)
    if not (c == s1) or hash(c.grid) != hash(s1.grid) or hash(c.agent) != hash(s1.agent):
        ctx.fail('a copied state does not equal / hash like its original', {'kind': 'hash'})
    n = ndiff(d1, d2)
    ctx.ev.case(case, nt=(n == 1), classes=[kind, 'edit:' + case['edit'], 'equal' if equal else ('one_component' if n == 1 else 'several_components')] + (['long_grid'] if max(shape) >= 127 else []),
                sample=({'kind': kind, 'space': space, 'shape': list(shape), 'edit': case['edit'], 'agents': [d1['agent'], d2['agent']]} if max(shape) > 12 else None))


# ------------------------------------------------------------------ history: hashing must not go stale (in-place door opening)


@st.composite
def strat_hash(draw, tier):
    space = draw(gen.space_s(must=('Floor', 'Door', 'Key'), allow_box=False))
    sd = draw(gen.state_s(space, min_hw=2, max_hw=5, valid=True))
    y, x = sd['agent'][0], sd['agent'][1]
    inward = [h for h in objs.HEADINGS if M.in_grid(sd, (y + M.FWD[h][0], x + M.FWD[h][1]))]
    sd['agent'][2] = draw(st.sampled_from(inward))
    f = M.front(sd)
    col = draw(st.sampled_from(space['colors']))
    sd['grid'][f[0]][f[1]] = f'D:{draw(st.sampled_from(["CLOSED", "LOCKED"]))}:{col}'
    sd['agent'][3] = f'K:{col}'
    return {'space': space, 'state': sd, 'actions': draw(st.lists(st.sampled_from(['ACTUATE', 'PICK_N_DROP', 'MOVE_FORWARD', 'TURN_LEFT']), min_size=1, max_size=4))}


def oracle_hash(case, ctx):
    from gym_gridverse.envs.transition_functions import transition_with_copy
    sd = case['state']
    fn = envs.mk_transition(['move_agent', 'turn_agent', 'actuate_door', 'pickndrop'])
    s = objs.build_state(sd)
    seen = {}
    for a in ['ACTUATE'] + case['actions']:
        hash(s.grid), hash(s.agent), hash(s)      # the state has been hashed (dict key / visited set) before it is stepped
        seen[objs.digest_state(s) if False else str(objs.canon_state(s))] = s
        s = transition_with_copy(fn, s, objs.action(a))
        fresh = objs.build_state(objs.canon_state(s))
        if not (fresh == s):
            ctx.fail('a state does not equal a freshly built state with the same content', {'kind': 'hash'})
        if hash(fresh) != hash(s) or hash(fresh.grid) != hash(s.grid) or hash(fresh.agent) != hash(s.agent):
            ctx.fail(f'equal states hash differently after a step ({a}) from a previously hashed state (stale hash)', {'kind': 'hash'})
        for name in reps.NAMES:
            rep = reps.make_rep('state', name, M.shape(sd), case['space'])
            if not reps.arrays_equal(rep.convert(s), rep.convert(fresh)):
                ctx.fail('equal states have different representations', {'kind': 'lossless'})
    ctx.ev.case(case, nt=True, classes=['hashed_then_stepped'])


# ------------------------------------------------------------------ exhaustive per-object encodings over spaces


def enum_spaces(tier, shard, nshards):
    types = gen.GRID_TYPES
    colsets = [[], ['YELLOW'], ['RED', 'BLUE'], ['RED', 'GREEN', 'BLUE', 'YELLOW']] if tier == 'quick' else \
        [list(c) for k in range(5) for c in itertools.combinations(['RED', 'GREEN', 'BLUE', 'YELLOW'], k)]
    i = 0
    for bits in itertools.product([0, 1], repeat=len(types)):
        ts = [t for t, b in zip(types, bits) if b]
        if not ts:
            continue
        for cs in colsets:
            i += 1
            if i % nshards == shard:
                yield {'types': ts, 'colors': ['NONE'] + cs}


def oracle_space(case, ctx):
    space = case
    for kind in ('state', 'obs'):
        if kind == 'state' and 'Box' in space['types']:
            continue
        shape = (2, 2) if kind == 'state' else (1, 3)
        ex = reps.all_objects(space, kind)
        for name in reps.NAMES:
            rep = reps.make_rep(kind, name, shape, space)
            # the same space declared with a type list that repeats entries and comes in another order (lists in configuration files are
            # not sets): it has the same members, so every member has the same encoding
            rep_dup = reps.make_rep(kind, name, shape, {'types': space['types'][::-1] + space['types'][::2], 'colors': space['colors'][:1] + space['colors'][1:][::-1]})
            for o in ex:
                dd = {'grid': [[ex[0]] * shape[1] for _ in range(shape[0])], 'agent': [0, 0, 'F', o if o != 'H' else '_']}
                dd['grid'][shape[0] - 1][shape[1] - 1] = o
                if not reps.arrays_equal(reps.convert(kind, rep, dd), reps.convert(kind, rep_dup, dd)):
                    ctx.fail(f'{kind}/{name}: {o} is encoded differently when the space lists its types as {space["types"][::-1] + space["types"][::2]} (repeated entries, other order) '
                             f'instead of {space["types"]}', {'kind': 'space_listing', 'rep': name})
            enc = {}
            for o in ex + ['_']:
                d = {'grid': [[ex[0]] * shape[1] for _ in range(shape[0])], 'agent': [0, 0, 'F', o if o != 'H' else '_']}
                if o not in ('_',):
                    d['grid'][shape[0] - 1][shape[1] - 1] = o
                a = reps.convert(kind, rep, d)
                cell = tuple(int(v) for v in a['grid'][shape[0] - 1, shape[1] - 1])
                item = tuple(int(v) for v in a['item'])
                if o == 'H':
                    enc[o] = cell
                elif o == '_':
                    enc[o] = item
                else:
                    if cell != item:
                        ctx.fail(f'{kind}/{name}: {o} encoded {cell} in a cell but {item} as held item (space {space})', {'kind': 'positional', 'rep': name})
                    enc[o] = cell
                    # same encoding at every cell, independent of the other cells
                    d2 = {'grid': [[ex[-1]] * shape[1] for _ in range(shape[0])], 'agent': [shape[0] - 1, shape[1] - 1, 'F', '_']}
                    d2['grid'][0][0] = o
                    c2 = tuple(int(v) for v in reps.convert(kind, rep, d2)['grid'][0, 0])
                    if c2 != cell:
                        ctx.fail(f'{kind}/{name}: {o} encoded {cell} at one cell and {c2} at another (space {space})', {'kind': 'positional', 'rep': name})
            # injective on (type, status, colour)
            by_code = {}
            for o, code in enc.items():
                key = M.triple(o) if o != 'B(F)' else M.triple(o)
                if code in by_code and by_code[code] != key:
                    ctx.fail(f'{kind}/{name}: two different objects share the encoding {code} (space {space})', {'kind': 'lossless', 'rep': name})
                by_code[code] = key
            if name == 'default':
                for o, code in enc.items():
                    if code != M.triple(o):
                        ctx.fail(f'{kind}/default: {o} encoded as {code}, documented (type, status, colour) index triple is {M.triple(o)}', {'kind': 'default_triple'})
            else:
                ch = [set(c[k] for c in enc.values()) for k in range(3)]
                if ch[0] & ch[1] or ch[0] & ch[2] or ch[1] & ch[2]:
                    ctx.fail(f'{kind}/{name}: channel value ranges overlap: types {sorted(ch[0])}, statuses {sorted(ch[1])}, colours {sorted(ch[2])} (space {space})', {'kind': 'channel_overlap', 'rep': name})
                if name == 'compact':
                    carriers = any(t in reps.COLOURED for t in space['types'])
                    if carriers or space['colors'] == ['NONE']:
                        used = sorted(ch[0] | ch[1] | ch[2])
                        if used != list(range(len(used))):
                            missing = sorted(set(range(used[-1] + 1)) - set(used))
                            ctx.fail(f'{kind}/compact: values used {used} are not consecutive from zero (missing {missing}); colours={space["colors"]} types={space["types"]}', {'kind': 'compact_gaps'})
    ctx.ev.case(case, nt=(len(space['types']) >= 2 and ('Door' in space['types'] or len(space['colors']) > 1)), classes=['space'])


# ------------------------------------------------------------------ user-defined object types (registered by subclassing)

from gym_gridverse import grid_object as _go  # noqa: E402


class VerifCrate(_go.Wall):
    """a custom scenery type deriving from a registered type (registration happens through __init_subclass__)"""


class VerifGem(_go.Key):
    """a custom holdable, coloured type deriving from Key"""


class VerifPlain(_go.GridObject):
    state_index = 0
    color = _go.Color.NONE
    blocks_movement = False
    blocks_vision = False
    holdable = False

    @classmethod
    def can_be_represented_in_state(cls):
        return True

    @classmethod
    def num_states(cls):
        return 1


def make_countdown(n_states):
    """a user-defined type with many statuses (a countdown timer, a fuel gauge): fresh class per call"""
    class VerifCountdown(_go.GridObject):
        color = _go.Color.NONE
        blocks_movement = False
        blocks_vision = False
        holdable = False

        def __init__(self, n=0):
            self.n = n

        @property
        def state_index(self):
            return self.n

        @classmethod
        def can_be_represented_in_state(cls):
            return True

        @classmethod
        def num_states(cls):
            return n_states

        def __repr__(self):
            return f'VerifCountdown({self.n})'

    return VerifCountdown


def enum_statuses(tier, shard, nshards):
    i = 0
    for n_states in ([300] if tier == 'quick' else [300, 700, 5000]):
        for kind in ('state', 'obs'):
            for name in reps.NAMES:
                i += 1
                if i % nshards == shard:
                    yield {'n_states': n_states, 'kind': kind, 'rep': name}


def oracle_statuses(case, ctx):
    """one representation instance sees every status of a type that has hundreds of them, twice, interleaved with ordinary objects:
    the cell entry depends only on the object in the cell, equal objects encode equally at every time, different ones differently"""
    from gym_gridverse.agent import Agent
    from gym_gridverse.geometry import Orientation, Position, Shape
    from gym_gridverse.grid import Grid
    from gym_gridverse.observation import Observation
    from gym_gridverse.representations.observation_representations import make_observation_representation
    from gym_gridverse.representations.state_representations import make_state_representation
    from gym_gridverse.spaces import ObservationSpace, StateSpace
    from gym_gridverse.state import State
    N, kind, name = case['n_states'], case['kind'], case['rep']
    CD = make_countdown(N)
    types, colors = [_go.Floor, _go.Wall, _go.Key, CD], [_go.Color.NONE, _go.Color.RED]
    if kind == 'state':
        rep = make_state_representation(name, StateSpace(Shape(2, 3), types, colors))      # (state representations need grids of 2x2 and more)
    else:
        rep = make_observation_representation(name, ObservationSpace(Shape(1, 3), types, colors))
    first = {}
    fixed = {}
    order = list(range(N)) + list(range(N - 1, -1, -1)) + [0, N - 1, N // 2]
    for k, n in enumerate(order):
        grid = Grid([[_go.Wall(), _go.Key(_go.Color.RED), CD(n)]] + ([[_go.Floor(), _go.Floor(), _go.Floor()]] if kind == 'state' else []))
        member = (State if kind == 'state' else Observation)(grid, Agent(Position(0, 0), Orientation.F, None))
        a = guarded(ctx, f'{kind}/{name}.convert', rep.convert, member)
        cells = [tuple(int(v) for v in a['grid'][0, j]) for j in range(3)]
        if not rep.space['grid'].contains(a['grid']):
            ctx.fail(f'{kind}/{name}: with status {n} of {N} the grid array leaves its declared space', {'kind': 'many_statuses'})
        for j, what in ((0, 'Wall'), (1, 'Key(RED)')):
            if fixed.setdefault(what, cells[j]) != cells[j]:
                ctx.fail(f'{kind}/{name}: the encoding of {what} changed from {fixed[what]} to {cells[j]} after {k} conversions (statuses of another type seen in between)', {'kind': 'many_statuses'})
        if first.setdefault(n, cells[2]) != cells[2]:
            ctx.fail(f'{kind}/{name}: status {n} encoded as {first[n]} at first and as {cells[2]} after {k} conversions', {'kind': 'many_statuses'})
        if name == 'default' and cells[2] != (_go.grid_object_registry.index(CD), n, 0):
            ctx.fail(f'{kind}/default: VerifCountdown({n}) encoded as {cells[2]}, its (type index, status, colour) is {(_go.grid_object_registry.index(CD), n, 0)}', {'kind': 'default_triple'})
    vals = list(first.values()) + list(fixed.values())
    if len(set(vals)) != len(vals):
        ctx.fail(f'{kind}/{name}: two different objects share an encoding among {N} statuses, a wall and a key', {'kind': 'lossless'})
    ctx.ev.case(case, nt=True, classes=[f'statuses:{N}', 'rep:' + name])


CUSTOM = {'VerifCrate': VerifCrate, 'VerifGem': VerifGem, 'VerifPlain': VerifPlain}
_FRESH = 0


def enum_custom(tier, shard, nshards):
    i = 0
    builtin = ['Floor', 'Wall', 'Key', 'Door', 'Exit']
    for bits in itertools.product([0, 1], repeat=len(builtin)):
        base = [t for t, b in zip(builtin, bits) if b]
        for cust in (['VerifCrate'], ['VerifGem'], ['VerifPlain'], ['VerifCrate', 'VerifGem', 'VerifPlain']):
            for parents_first in (True, False):
                i += 1
                if i % nshards == shard:
                    yield {'builtin': base, 'custom': cust, 'parents_first': parents_first, 'colors': ['NONE', 'RED', 'YELLOW']}


def oracle_custom(case, ctx):
    from gym_gridverse.geometry import Shape
    from gym_gridverse.representations.observation_representations import make_observation_representation
    from gym_gridverse.representations.state_representations import make_state_representation
    from gym_gridverse.spaces import ObservationSpace, StateSpace
    from gym_gridverse.grid import Grid
    from gym_gridverse.agent import Agent
    from gym_gridverse.geometry import Orientation, Position
    from gym_gridverse.state import State
    from gym_gridverse.observation import Observation
    names = (case['builtin'] + case['custom']) if case['parents_first'] else (case['custom'] + case['builtin'])
    # fresh user-defined classes for every case (a class-level cache set while handling an earlier case must not immunise this one)
    global _FRESH
    _FRESH += 1
    fresh = {n: type(f'{n}{_FRESH}', (CUSTOM[n],), {}) for n in case['custom']}
    VerifGem_ = tuple(v for k, v in fresh.items() if k == 'VerifGem')
    types = [fresh.get(n) or getattr(_go, n) for n in names]
    colors = [_go.Color[c] for c in case['colors']]

    def instances(t):
        if t in (_go.Key, VerifGem, _go.Exit) or t in VerifGem_:
            return [t(c) for c in colors]
        if t is _go.Door:
            return [t(st_, c) for st_ in _go.Door.Status for c in colors]
        return [t()]

    for t in types:
        t.type_index()   # evaluated in declaration order (parents first / custom first): a per-class cache must not leak to subclasses
    objs_ = [o for t in types for o in instances(t)]
    registry_index = {t: _go.grid_object_registry.index(t) for t in types}
    if len(set(registry_index.values())) != len(types):
        ctx.fail('the registry gives two types the same index', {'kind': 'type_index'})
    for kind in ('state', 'obs'):
        for name in reps.NAMES:
            if kind == 'state':
                rep = make_state_representation(name, StateSpace(Shape(2, 2), types, colors))
            else:
                rep = make_observation_representation(name, ObservationSpace(Shape(1, 3), types, colors))
            enc = {}
            for o in objs_:
                shape = (2, 2) if kind == 'state' else (1, 3)
                grid = Grid([[type(objs_[0])() if type(objs_[0]) not in (_go.Key, VerifGem, _go.Exit, _go.Door) + VerifGem_ else instances(type(objs_[0]))[0] for _ in range(shape[1])] for _ in range(shape[0])])
                grid[shape[0] - 1, shape[1] - 1] = o
                member = (State if kind == 'state' else Observation)(grid, Agent(Position(0, 0), Orientation.F, None))
                a = rep.convert(member)
                enc[(type(o).__name__, o.state_index, o.color.name)] = tuple(int(v) for v in a['grid'][shape[0] - 1, shape[1] - 1])
                if name == 'default' and enc[(type(o).__name__, o.state_index, o.color.name)] != (registry_index[type(o)], o.state_index, o.color.value):
                    ctx.fail(f'{kind}/default: {type(o).__name__} encoded as {enc[(type(o).__name__, o.state_index, o.color.name)]}, its (type index, status, colour) is '
                             f'{(registry_index[type(o)], o.state_index, o.color.value)}', {'kind': 'default_triple'})
            if len(set(enc.values())) != len(enc):
                dup = [k for k, v in enc.items() if list(enc.values()).count(v) > 1]
                ctx.fail(f'{kind}/{name}: different objects share an encoding: {dup[:4]} (types {names})', {'kind': 'lossless', 'rep': name})
            if name != 'default':
                ch = [set(c[k] for c in enc.values()) for k in range(3)]
                if ch[0] & ch[1] or ch[0] & ch[2] or ch[1] & ch[2]:
                    ctx.fail(f'{kind}/{name}: channel value ranges overlap with custom types {names}', {'kind': 'channel_overlap', 'rep': name})
    ctx.ev.case(case, nt=True, classes=['parents_first' if case['parents_first'] else 'custom_first'] + ['custom:' + c for c in case['custom']])


# ------------------------------------------------------------------ at the point of use: what the environments hand out


def strat_reads(tier):
    from vgv import configs
    op = st.one_of(st.tuples(st.just('step'), st.integers(0, 7)).map(list), st.tuples(st.just('step'), st.integers(0, 7)).map(list), st.just(['read']),
                   st.tuples(st.just('switch'), st.sampled_from(reps.NAMES), st.sampled_from(['gym', 'attribute', 'attribute'])).map(list), st.just(['reset']))
    return st.fixed_dictionaries({'cfg': configs.config_s(), 'seed': gen.seed_s, 'ops': st.lists(op, min_size=4, max_size=20)})


def oracle_reads(case, ctx):
    """whatever the history of reads and representation switches (through the gym method or by assigning the public attribute of the
    outer environment), the arrays handed out are the encoding -- by a freshly made representation of that name -- of the inner
    environment's current observation / state"""
    from vgv import configs
    from gym_gridverse.gym import GymEnvironment
    from gym_gridverse.outer_env import OuterEnv
    from gym_gridverse.representations.observation_representations import make_observation_representation
    from gym_gridverse.representations.state_representations import make_state_representation
    cfg = case['cfg']
    inner = guarded(ctx, 'build', configs.build, cfg, case['seed'])
    try:
        srep = make_state_representation('default', inner.state_space)
    except ValueError:
        srep = None
    outer = OuterEnv(inner, state_representation=srep, observation_representation=make_observation_representation('default', inner.observation_space))
    env = GymEnvironment(outer)
    oname = sname = 'default'
    env.reset()
    switched_after_read = 0
    last = 'reset'

    def check(what):
        exp = make_observation_representation(oname, inner.observation_space).convert(inner.observation)
        for label, got in (('outer.observation', outer.observation), ('gym observation', env.observation)):
            if not reps.arrays_equal(got, exp):
                bad = [k for k in exp if k not in got or not np.array_equal(got[k], exp[k])]
                ctx.fail(f'{cfg["base"]} {cfg["mods"]}: {what}: {label} (keys {bad}) is not the "{oname}" encoding of the inner observation', {'kind': 'env_read', 'rep': oname})
        if srep is not None:
            exp = make_state_representation(sname, inner.state_space).convert(inner.state)
            if not reps.arrays_equal(outer.state, exp):
                ctx.fail(f'{cfg["base"]} {cfg["mods"]}: {what}: outer.state is not the "{sname}" encoding of the inner state', {'kind': 'env_read', 'rep': sname})

    check('after reset')
    for k, op in enumerate(case['ops']):
        if op[0] == 'step':
            _, _, done, _ = guarded(ctx, 'gym step', env.step, op[1] % env.action_space.n)
            if done:
                env.reset()
        elif op[0] == 'reset':
            env.reset()
        elif op[0] == 'switch':
            oname = op[1]
            if op[2] == 'gym':
                env.set_observation_representation(oname)
                if srep is not None:
                    sname = oname
                    env.set_state_representation(sname)
            else:
                outer.observation_representation = make_observation_representation(oname, inner.observation_space)
                if srep is not None:
                    sname = oname
                    outer.state_representation = make_state_representation(sname, inner.state_space)
            if last == 'read':
                switched_after_read += 1
        check(f'op {k} {op}')
        last = 'read'
    ctx.ev.case(case, nt=switched_after_read > 0, classes=['cfg:' + cfg['base'].replace('.yaml', '')] + (['switch_between_reads'] if switched_after_read else [])
                + sorted({'switch:' + op[2] for op in case['ops'] if op[0] == 'switch'}))


CHECKS = [
    Check('pairs', oracle_pair, strategy=strat_pair, examples={'quick': 400, 'thorough': 1500}, shards={'quick': 4, 'thorough': 16},
          rule='space x member pair (one generated edit: cell object / door status / door colour / agent cell / heading / held item / swap / independent draw) x 3 representations: equal arrays <=> equal members; positional cell encoding; agent marker; default triple; normalised pose',
          required=['one_component', 'equal', 'edit:cell_status', 'edit:heading', 'edit:held']),
    Check('hash_history', oracle_hash, strategy=strat_hash, examples={'quick': 150, 'thorough': 600}, shards={'quick': 2, 'thorough': 8},
          rule='a state is hashed, then stepped (door opened in place), and must equal and hash like a freshly built state with the same content',
          required=['hashed_then_stepped']),
    Check('spaces_exhaustive', oracle_space, enumerate=enum_spaces, shards={'quick': 16, 'thorough': 16}, exhaustive=True,
          rule='all 2^9-1 type subsets x 4 colour subsets (16 thorough): every object of the space: cell == item encoding, same at every cell, injective, default triple, channel disjointness (no-overlap, compact), no gaps (compact)'),
    Check('custom_types', oracle_custom, enumerate=enum_custom, shards={'quick': 4, 'thorough': 8},
          rule='spaces mixing built-in types with user-defined ones (subclasses of Wall, of Key, and of GridObject) in both declaration orders: registry indices unique, default triple, injective encodings, channel disjointness',
          required=['parents_first', 'custom_first', 'custom:VerifCrate']),
    Check('env_reads', oracle_reads, strategy=strat_reads, examples={'quick': 40, 'thorough': 150}, shards={'quick': 4, 'thorough': 16},
          rule='shipped and perturbed configurations x 4-20 ops (step, reset, read, representation switch through the gym method or by assigning the outer environment\'s public attribute): every observation / state handed out == encoding of the inner one by a fresh representation',
          required=['switch_between_reads', 'switch:gym', 'switch:attribute']),
    Check('many_statuses', oracle_statuses, enumerate=enum_statuses, shards={'quick': 6, 'thorough': 8}, exhaustive=True,
          rule='a user-defined type with 300 (thorough 700, 5000) statuses: one representation instance converts every status twice (ascending, descending), next to a wall and a key: entries depend only on the object, equal objects encode equally at every time, different ones differently',
          required=['statuses:300']),
]
