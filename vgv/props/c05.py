"""C05 -- observations are sound: they never show anything that is not there."""
import copy

from hypothesis import strategies as st

from vgv import gen, model as M, objs, obsutil
from vgv import prelude
from vgv.framework import Check, guarded

RULE = ('non-trivial = the view hangs partly off the grid, or the heading is not FORWARD with a non-square or off-centre area, '
        'and at least one non-floor object is in view; distinct by (state, area, function).')
ASSUMPTIONS = ['partially_occluded is only used with area.ymax == 0 (it raises NotImplementedError otherwise, as documented in its TODO)',
               'every view area contains the agent cell (0,0)']


@st.composite
def strat(draw, tier):
    space = draw(gen.space_s())
    sd = draw(gen.state_s(space, max_hw=7 if tier == 'quick' else 9, floor_weight=1))
    f = draw(st.sampled_from(obsutil.ALL))
    area = draw(gen.area_s(max_ext=4 if tier == 'quick' else 5, ymax_zero=(f == 'partially_occluded')))
    if draw(st.integers(0, 5)) == 0:
        # the view that covers the grid exactly (the shape an aliasing "optimisation" of subgrid would hit)
        h, w = M.shape(sd)
        y, x = sd['agent'][0], sd['agent'][1]
        sd['agent'][2] = 'F'
        if f == 'partially_occluded':
            sd['agent'][0] = y = h - 1
        area = [[-y, h - 1 - y], [-x, w - 1 - x]]
    huge = f in ('fully_transparent', 'partially_occluded') and draw(st.integers(0, 24)) == 0
    if huge:
        area = draw(st.sampled_from(gen.HUGE_AREAS))
    pre = draw(st.sampled_from([None, None] + [g for g in obsutil.DETERMINISTIC if g != 'partially_occluded' or area[0][1] == 0]))
    pre = None if huge else pre
    return {'state': sd, 'area': area, 'f': f, 'seed': draw(gen.seed_s), 'pre': pre}


def box_variant(sd):
    """a state that is == under the repository's equality (which ignores box contents) but deeply different"""
    v = copy.deepcopy(sd)
    changed = False
    for row in v['grid']:
        for j, o in enumerate(row):
            if M.obj_type(o) == 'Box':
                inner = M.parse_obj(o)['content']
                row[j] = 'B(W)' if inner != 'W' else 'B(F)'
                changed = True
    if M.obj_type(v['agent'][3]) == 'Box':
        v['agent'][3] = 'B(W)' if v['agent'][3] != 'B(W)' else 'B(F)'
        changed = True
    return v if changed else None


def oracle(case, ctx):
    prelude.door_first(ctx)
    sd, area, f = case['state'], case['area'], case['f']
    seed = case['seed'] if f == 'stochastic_raytracing' else None
    full = M.full_view(sd, area)
    variant = box_variant(sd)
    if variant is not None:
        # history: an earlier observation of a look-alike world must not leak into this one
        guarded(ctx, f'observation {f}', obsutil.observe, f, variant, area, seed)
    # what a caller does with a returned visibility mask must not leak into later observations
    from gym_gridverse.envs.visibility_functions import visibility_function_registry as VIS
    from gym_gridverse.geometry import Position
    from gym_gridverse.grid import Grid
    vh_, vw_ = M.area_shape(area)
    for vname in ('fully_transparent', 'raytracing') if vh_ * vw_ <= 400 else ('fully_transparent',):
        mask = VIS[vname](Grid.from_shape((vh_, vw_)), Position(-area[0][0], -area[1][0]))
        mask[...] = False
    S = objs.build_state(sd)
    if case.get('pre'):
        # the same State object is observed twice: an earlier observation must not leak into the next one
        guarded(ctx, f'observation {case["pre"]}', obsutil.observe, case['pre'], S, area)
    od = guarded(ctx, f'observation {f} area {area}', obsutil.observe, f, S, area, seed)
    vh, vw = M.area_shape(area)
    sig = {'kind': 'soundness', 'f': f}
    if M.shape(od) != (vh, vw) or any(len(r) != vw for r in od['grid']):
        ctx.fail(f'{f}: observation shape {M.shape(od)} != view area shape {(vh, vw)} (area {area})', sig)
    if od['agent'][:3] != [-area[0][0], -area[1][0], 'F']:
        ctx.fail(f'{f}: agent reported at {od["agent"][:3]}, the anchor cell of area {area} facing forward is {[-area[0][0], -area[1][0], "F"]}', sig)
    if od['agent'][3] != sd['agent'][3]:
        ctx.fail(f'{f}: held item {sd["agent"][3]} reported as {od["agent"][3]}', sig)
    for i in range(vh):
        for j in range(vw):
            c = od['grid'][i][j]
            if c != 'H' and c != full['grid'][i][j]:
                wp = M.view_cell_to_world(sd, area, i, j)
                there = M.cell(sd, wp) if M.in_grid(sd, wp) else 'outside the grid'
                ctx.fail(f'{f}: view cell {(i, j)} shows {c} but world cell {wp} is {there} (agent {sd["agent"][:3]}, area {area}, grid {M.shape(sd)})', sig)
    if f in ('fully_transparent', 'from_visibility') and od['grid'] != full['grid']:
        ctx.fail(f'{f}: an in-grid cell of the view is hidden', sig)
    if objs.canon_state(objs.build_state(sd)) != sd:
        pass
    off = any(c == 'H' for r in full['grid'] for c in r)
    nonfloor = any(c not in ('F', 'H') for r in full['grid'] for c in r)
    odd = sd['agent'][2] != 'F' and (vh != vw or area[1][0] != -area[1][1] or area[0][1] != 0)
    cl = ['f:' + f, 'heading:' + sd['agent'][2]]
    if off:
        cl.append('view_off_grid')
    if odd:
        cl.append('rotated_asymmetric')
    if area[0][1] != 0:
        cl.append('ymax!=0')
    if variant is not None:
        cl.append('box_lookalike_history')
    if case.get('pre'):
        cl.append('second_observation')
    if M.shape(full) == M.shape(sd) and not off:
        cl.append('view==grid')
    if min(M.area_shape(area)) >= 32:
        cl.append('huge_view')
    ctx.ev.case(case, nt=((off or odd) and nonfloor), classes=cl, key=[sd, area, f])


# ------------------------------------------------------------------ through GridWorld.functional_observation


@st.composite
def strat_env(draw, tier):
    space = draw(gen.space_s(must=('Floor', 'Box', 'Key')))
    sd = draw(gen.state_s(space, min_hw=2, max_hw=6, floor_weight=1))
    if not any(M.obj_type(o) == 'Box' for r in sd['grid'] for o in r):
        sd['grid'][0][0] = 'B(K:NONE)'
    return {'space': space, 'state': sd, 'view': [draw(st.integers(1, 5)), draw(st.sampled_from([1, 3, 5]))],
            'f': draw(st.sampled_from(['fully_transparent', 'partially_occluded', 'raytracing'])), 'seed': draw(gen.seed_s)}


def oracle_env(case, ctx):
    """the environment's functional observation of *any* state is sound, whatever state the environment itself is in and
    whatever it has memoised (a look-alike of the current state differs from it only inside boxes)"""
    from vgv import envs
    sd, view = case['state'], case['view']
    variant = box_variant(sd)
    comp = {'chain': ['move_agent'], 'rewards': [{'name': 'living_reward'}], 'term': {'name': 'reach_exit'}, 'obs': case['f'], 'view': view}
    env = envs.mk_env(case['space'], M.shape(sd), comp, reset_state=sd)
    env.set_seed(case['seed'])
    env.reset()
    area = gen.view_area(*view)
    own = objs.canon_state(guarded(ctx, 'env.observation', lambda: env.observation))
    for d, what in ((variant, 'a look-alike of the current state (other box contents)'), (sd, 'an equal copy of the current state')):
        od = objs.canon_state(guarded(ctx, 'functional_observation', env.functional_observation, objs.build_state(d)))
        full = M.full_view(d, area)
        for i, row in enumerate(od['grid']):
            for j, c in enumerate(row):
                if c != 'H' and c != full['grid'][i][j]:
                    ctx.fail(f'functional_observation[{case["f"]}] of {what}: view cell {(i, j)} shows {c} but the world cell holds {full["grid"][i][j]}', {'kind': 'soundness', 'f': case['f']})
        if od['agent'][3] != d['agent'][3]:
            ctx.fail(f'functional_observation of {what}: held item {d["agent"][3]} reported as {od["agent"][3]}', {'kind': 'soundness'})
    # one State object, observed, then edited in place by its owner (a cell through grid[pos] = obj, the pose), observed again
    import copy
    from gym_gridverse.geometry import Position
    s = objs.build_state(sd)
    guarded(ctx, 'functional_observation', env.functional_observation, s)
    d2 = copy.deepcopy(sd)
    f = M.front(d2)
    p = f if M.in_grid(d2, f) else (0, 0)
    if p != (d2['agent'][0], d2['agent'][1]):
        new = 'K:NONE' if d2['grid'][p[0]][p[1]] != 'K:NONE' else 'F'
        d2['grid'][p[0]][p[1]] = new
        s.grid[Position(*p)] = objs.build_obj(new)
    for turn in range(2):
        od = objs.canon_state(guarded(ctx, 'functional_observation', env.functional_observation, s))
        full = M.full_view(d2, area)
        for i, row in enumerate(od['grid']):
            for j, c in enumerate(row):
                if c != 'H' and c != full['grid'][i][j]:
                    ctx.fail(f'functional_observation[{case["f"]}] of a state object observed before and then edited in place ({"cell " + str(p) if turn == 0 else "cell and heading"}): '
                             f'view cell {(i, j)} shows {c} but the world cell holds {full["grid"][i][j]}', {'kind': 'soundness', 'f': case['f'], 'aspect': 'edited_in_place'})
        d2['agent'][2] = M.turn(d2['agent'][2], 1)
        s.agent.orientation = objs.ori(d2['agent'][2])
    ctx.ev.case(case, nt=True, classes=['f:' + case['f'], 'memoised_then_lookalike', 'observed_edited_observed'])


CHECKS = [
    Check('soundness', oracle, strategy=strat, examples={'quick': 700, 'thorough': 2500}, shards={'quick': 4, 'thorough': 16},
          rule='grids 1..7 (9 thorough) x agent anywhere x 4 headings x areas (extent <= 4/5 each way, symmetric or not, ymax != 0 too, view == grid) x 5 observation functions x seeds, '
               'against the model view-cell -> world-cell map; a look-alike world (different box contents) is observed first',
          required=['view_off_grid', 'rotated_asymmetric', 'ymax!=0', 'box_lookalike_history', 'view==grid', 'heading:L', 'heading:B', 'heading:R', 'huge_view']),
    Check('gridworld_functional_observation', oracle_env, strategy=strat_env, examples={'quick': 300, 'thorough': 1200}, shards={'quick': 2, 'thorough': 8},
          rule='GridWorld assembled from built-ins, reset and its own observation read (memoised); then functional_observation of a look-alike state (== under the repository equality, other box contents) and of an equal copy against the model; one State object observed, edited in place (cell, heading), observed again',
          required=['memoised_then_lookalike', 'observed_edited_observed']),
]
