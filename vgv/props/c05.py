"""C05 -- observations are sound: they never show anything that is not there."""
import copy

from hypothesis import strategies as st

from vgv import gen, model as M, objs, obsutil
from vgv.framework import Check, guarded

RULE = ('non-trivial = the view hangs partly off the grid, or the heading is not FORWARD with a non-square or off-centre area, '
        'and at least one non-floor object is in view; distinct by (state, area, function).')
ASSUMPTIONS = ['partially_occluded is only used with area.ymax == 0 (it raises NotImplementedError otherwise, as documented in its TODO)',
               'every view area contains the agent cell (0,0)']


@st.composite
def strat(draw, tier):
    space = draw(gen.space_s())
    sd = draw(gen.state_s(space, max_hw=7 if tier == 'quick' else 9, floor_weight=1))
    f = draw(st.sampled_from(obsutil.ALL))
    area = draw(gen.area_s(max_ext=4 if tier == 'quick' else 5, ymax_zero=(f == 'partially_occluded')))
    if draw(st.integers(0, 5)) == 0:
        # the view that covers the grid exactly (the shape an aliasing "optimisation" of subgrid would hit)
        h, w = M.shape(sd)
        y, x = sd['agent'][0], sd['agent'][1]
        sd['agent'][2] = 'F'
        if f == 'partially_occluded':
            sd['agent'][0] = y = h - 1
        area = [[-y, h - 1 - y], [-x, w - 1 - x]]
    pre = draw(st.sampled_from([None, None] + [g for g in obsutil.DETERMINISTIC if g != 'partially_occluded' or area[0][1] == 0]))
    return {'state': sd, 'area': area, 'f': f, 'seed': draw(gen.seed_s), 'pre': pre}


def box_variant(sd):
    """a state that is == under the repository's equality (which ignores box contents) but deeply different"""
    v = copy.deepcopy(sd)
    changed = False
    for row in v['grid']:
        for j, o in enumerate(row):
            if M.obj_type(o) == 'Box':
                inner = M.parse_obj(o)['content']
                row[j] = 'B(W)' if inner != 'W' else 'B(F)'
                changed = True
    if M.obj_type(v['agent'][3]) == 'Box':
        v['agent'][3] = 'B(W)' if v['agent'][3] != 'B(W)' else 'B(F)'
        changed = True
    return v if changed else None


def oracle(case, ctx):
    sd, area, f = case['state'], case['area'], case['f']
    seed = case['seed'] if f == 'stochastic_raytracing' else None
    full = M.full_view(sd, area)
    variant = box_variant(sd)
    if variant is not None:
        # history: an earlier observation of a look-alike world must not leak into this one
        guarded(ctx, f'observation {f}', obsutil.observe, f, variant, area, seed)
    S = objs.build_state(sd)
    if case.get('pre'):
        # the same State object is observed twice: an earlier observation must not leak into the next one
        guarded(ctx, f'observation {case["pre"]}', obsutil.observe, case['pre'], S, area)
    od = guarded(ctx, f'observation {f} area {area}', obsutil.observe, f, S, area, seed)
    vh, vw = M.area_shape(area)
    sig = {'kind': 'soundness', 'f': f}
    if M.shape(od) != (vh, vw) or any(len(r) != vw for r in od['grid']):
        ctx.fail(f'{f}: observation shape {M.shape(od)} != view area shape {(vh, vw)} (area {area})', sig)
    if od['agent'][:3] != [-area[0][0], -area[1][0], 'F']:
        ctx.fail(f'{f}: agent reported at {od["agent"][:3]}, the anchor cell of area {area} facing forward is {[-area[0][0], -area[1][0], "F"]}', sig)
    if od['agent'][3] != sd['agent'][3]:
        ctx.fail(f'{f}: held item {sd["agent"][3]} reported as {od["agent"][3]}', sig)
    for i in range(vh):
        for j in range(vw):
            c = od['grid'][i][j]
            if c != 'H' and c != full['grid'][i][j]:
                wp = M.view_cell_to_world(sd, area, i, j)
                there = M.cell(sd, wp) if M.in_grid(sd, wp) else 'outside the grid'
                ctx.fail(f'{f}: view cell {(i, j)} shows {c} but world cell {wp} is {there} (agent {sd["agent"][:3]}, area {area}, grid {M.shape(sd)})', sig)
    if f in ('fully_transparent', 'from_visibility') and od['grid'] != full['grid']:
        ctx.fail(f'{f}: an in-grid cell of the view is hidden', sig)
    if objs.canon_state(objs.build_state(sd)) != sd:
        pass
    off = any(c == 'H' for r in full['grid'] for c in r)
    nonfloor = any(c not in ('F', 'H') for r in full['grid'] for c in r)
    odd = sd['agent'][2] != 'F' and (vh != vw or area[1][0] != -area[1][1] or area[0][1] != 0)
    cl = ['f:' + f, 'heading:' + sd['agent'][2]]
    if off:
        cl.append('view_off_grid')
    if odd:
        cl.append('rotated_asymmetric')
    if area[0][1] != 0:
        cl.append('ymax!=0')
    if variant is not None:
        cl.append('box_lookalike_history')
    if case.get('pre'):
        cl.append('second_observation')
    if M.shape(full) == M.shape(sd) and not off:
        cl.append('view==grid')
    ctx.ev.case(case, nt=((off or odd) and nonfloor), classes=cl, key=[sd, area, f])


CHECKS = [
    Check('soundness', oracle, strategy=strat, examples={'quick': 700, 'thorough': 2500}, shards={'quick': 4, 'thorough': 16},
          rule='grids 1..7 (9 thorough) x agent anywhere x 4 headings x areas (extent <= 4/5 each way, symmetric or not, ymax != 0 too, view == grid) x 5 observation functions x seeds, '
               'against the model view-cell -> world-cell map; a look-alike world (different box contents) is observed first',
          required=['view_off_grid', 'rotated_asymmetric', 'ymax!=0', 'box_lookalike_history', 'view==grid', 'heading:L', 'heading:B', 'heading:R']),
]
