"""C14 -- every initial state is winnable (witness search over the real step function)."""
import functools
import json
from collections import deque

from hypothesis import strategies as st

from vgv import envs, gen, model as M, objs
from vgv.framework import Check, Inconclusive, digest
from vgv.props import c13

from gym_gridverse import grid_object as go
from gym_gridverse.action import Action
from gym_gridverse.envs.gridworld import GridWorld
from gym_gridverse.envs.reset_functions import reset_function_registry as REG
from gym_gridverse.geometry import Shape
from gym_gridverse.spaces import ActionSpace, ObservationSpace, StateSpace

RULE = ('non-trivial = the witness is longer than the Manhattan distance to the goal or uses ACTUATE/PICK_N_DROP; '
        'distinct by (function, parameters, initial state).')
ASSUMPTIONS = [
    'dynamics and termination are those of the shipped configuration family of each reset function',
    'for dynamic_obstacles the witness search samples successors of the real stochastic step; no witness within the budget = inconclusive, never a violation',
    'exhaustive BFS over the real step (deterministic environments) is capped at 60k states (grids over 150 cells: 4 states per cell, i.e. navigation only); hitting the cap = inconclusive',
]

FAMILY = {
    'empty': (['move_agent', 'turn_agent'], 'exit'),
    'rooms': (['move_agent', 'turn_agent'], 'exit'),
    'crossing': (['move_agent', 'turn_agent'], 'exit'),
    'teleport': (['move_agent', 'turn_agent', 'teleport'], 'exit'),
    'dynamic_obstacles': (['move_agent', 'turn_agent', 'move_obstacles'], 'exit_obstacles'),
    'keydoor': (['move_agent', 'turn_agent', 'actuate_door', 'pickndrop'], 'exit'),
    'memory': (['move_agent', 'turn_agent'], 'memory'),
    'memory_rooms': (['move_agent', 'turn_agent'], 'memory'),
}
NAV_ACTIONS = ['MOVE_FORWARD', 'MOVE_BACKWARD', 'MOVE_LEFT', 'MOVE_RIGHT', 'TURN_LEFT', 'TURN_RIGHT']
BFS_CAP = 60000


def make_env(fn, p, seed):
    kw = dict(p)
    kw['shape'] = Shape(*p['shape'])
    if 'layout' in kw:
        kw['layout'] = tuple(kw['layout'])
    if 'colors' in kw:
        kw['colors'] = set(go.Color[c] for c in kw['colors'])
    if fn == 'crossing':
        kw['object_type'] = go.Wall
    chain, goal = FAMILY[fn]
    if goal == 'memory':
        reward = envs.mk_rewards([{'name': 'reach_exit_memory', 'reward_good': 1.0, 'reward_bad': -1.0}])
        term = envs.mk_term({'name': 'reach_exit'})
    elif goal == 'exit_obstacles':
        reward = envs.mk_rewards([{'name': 'reach_exit', 'reward_on': 1.0, 'reward_off': 0.0}])
        term = envs.mk_term({'name': 'reduce_any', 'terminating_functions': [{'name': 'reach_exit'}, {'name': 'bump_moving_obstacle'}, {'name': 'bump_into_wall'}]})
    else:
        reward = envs.mk_rewards([{'name': 'reach_exit', 'reward_on': 1.0, 'reward_off': 0.0}])
        term = envs.mk_term({'name': 'reach_exit'})
    types = [go.Floor, go.Wall, go.Exit, go.Door, go.Key, go.MovingObstacle, go.Telepod, go.Beacon]
    actions = list(Action) if fn == 'keydoor' else [Action[a] for a in NAV_ACTIONS]
    # the colours the state space lists are a seed-chosen subset (states are not required to use listed colours only: the criteria are
    # shape, types, agent cell, held type); with the library's debug checks on, every step of a witness passes the membership test
    listed = [c for i, c in enumerate(go.Color) if (seed >> (2 + i)) & 1] if seed % 3 == 0 else list(go.Color)
    env = GridWorld(
        StateSpace(Shape(*p['shape']), types, listed), ActionSpace(actions), ObservationSpace(Shape(3, 3), types, list(go.Color)),
        functools.partial(REG[fn], **kw), envs.mk_transition(chain), envs.mk_obs('fully_transparent', [[-2, 0], [-1, 1]]), reward, term,
    )
    env.set_seed(seed)
    return env


def execute(env, s0, plan):
    """run a plan on the real functional_step; -> (won, steps_used, reason)"""
    s = s0
    for i, a in enumerate(plan):
        s, r, t = env.functional_step(s, objs.action(a))
        if r == 1.0:
            return True, i + 1, 'goal'
        if t:
            return False, i + 1, f'terminated without the goal reward at step {i} ({a})'
    return False, len(plan), 'plan ended before the goal'


def goal_cells(fn, d):
    exits = M.find(d, lambda o: M.obj_type(o) == 'Exit')
    if FAMILY[fn][1] != 'memory':
        return exits, []
    beacons = M.find(d, lambda o: M.obj_type(o) == 'Beacon')
    if not beacons:
        return [], exits
    bc = M.color_of(M.cell(d, beacons[0]))
    good = [e for e in exits if M.color_of(M.cell(d, e)) == bc]
    return good, [e for e in exits if e not in good]


def model_plan(fn, d):
    if fn == 'keydoor':
        return M.plan_keydoor(d)
    good, bad = goal_cells(fn, d)
    if not good:
        return None
    avoid = set(bad) | set(M.find(d, lambda o: M.obj_type(o) in ('Telepod', 'MovingObstacle')))
    return M.plan_reach(d, good[0], avoid=avoid)


def real_bfs(env, s0):
    """exhaustive breadth-first search over the real functional_step (deterministic dynamics).
    -> (plan or None, states explored, exhausted?)"""
    # on long grids every expansion copies hundreds of cells: navigation (<= 4 states per cell) is still searched exhaustively, anything
    # larger (key and door) is left to the small instances
    cells = s0.grid.shape.height * s0.grid.shape.width
    cap = BFS_CAP if cells <= 150 else 4 * cells + 100
    seen = {digest(objs.canon_state(s0))}
    q = deque([(s0, [])])
    while q:
        s, path = q.popleft()
        for a in env.action_space.actions:
            ns, r, t = env.functional_step(s, a)
            if r == 1.0:
                return path + [a.name], len(seen), True
            if t:
                continue
            k = digest(objs.canon_state(ns))
            if k in seen:
                continue
            seen.add(k)
            if len(seen) > cap:
                return None, len(seen), False
            q.append((ns, path + [a.name]))
    return None, len(seen), True


def obstacle_witness(env, s0, tries=30, horizon=120):
    """randomised witness search for dynamic_obstacles: replan around the obstacles after every real (sampled) step"""
    for _ in range(tries):
        s = s0
        acts = []
        for _ in range(horizon):
            d = objs.canon_state(s)
            ex = M.find(d, lambda o: M.obj_type(o) == 'Exit')
            obst = set(M.find(d, lambda o: o == 'M'))
            danger = set(obst)
            for o in obst:
                danger |= set(M.neighbours4(o))
            plan = M.plan_reach(d, ex[0], avoid=danger - {ex[0]}) or M.plan_reach(d, ex[0], avoid=obst)
            a = plan[0] if plan else 'TURN_LEFT'
            s, r, t = env.functional_step(s, objs.action(a))
            acts.append(a)
            if r == 1.0:
                return acts
            if t:
                break
    return None


def strat(tier):
    return c13.strat(tier)


def oracle(case, ctx):
    fn, p, seed = case['fn'], case['p'], case['seed']
    if ctx.tier == 'quick' and max(p['shape']) > 11:
        ctx.ev.count('skipped_large')
        return
    try:
        env = make_env(fn, p, seed)
        s0 = env.functional_reset()
    except ValueError:
        ctx.ev.count(fn + ':rejected')
        return
    decide(ctx, case, fn, p, f'seed {seed}', env, s0, [])


def decide(ctx, case, fn, p, label, env, s0, extra_classes):
    d0 = objs.canon_state(s0)
    if c13.malformed(fn, p, d0):
        ctx.ev.count(fn + ':malformed(C13)')  # reported by C13; winnability is decided regardless
    good, bad = goal_cells(fn, d0)
    how = 'model_plan'
    if fn == 'dynamic_obstacles' and p.get('num_obstacles', 0) > 0:
        plan = obstacle_witness(env, s0)
        how = 'sampled_replanning'
        if plan is None:
            raise Inconclusive()
        won, used = True, len(plan)
    else:
        plan = model_plan(fn, d0)
        won = False
        if plan is not None:
            won, used, why = execute(env, s0, plan)
        if not won:
            how = 'real_bfs'
            plan, nstates, exhausted = real_bfs(env, s0)
            if plan is None and not exhausted:
                raise Inconclusive()
            if plan is None:
                # structural signature of the failure (for known_findings matching)
                cause = 'disconnected'
                if FAMILY[fn][1] == 'memory' and good:
                    if M.bfs_path(d0, M.apos(d0), good[0]) is not None:
                        cause = 'nonmatching_exit_on_every_path'
                ctx.fail(f'{fn}({p}) {label}: no action sequence reaches the rewarded goal {good} from agent {d0["agent"][:3]} '
                         f'({nstates} states of the real step function searched exhaustively; cause: {cause}); grid: {["".join(c[0] for c in r) for r in d0["grid"]]}',
                         {'kind': 'unwinnable', 'fn': fn, 'cause': cause})
                ctx.ev.case(case, nt=False, classes=[fn + ':unwinnable(known)'])
                return
            won, used, why = execute(env, s0, plan)
            if not won:
                ctx.fail(f'{fn}: a witness found by BFS does not replay: {why}', {'kind': 'witness_replay'})
    manh = min((abs(g[0] - d0['agent'][0]) + abs(g[1] - d0['agent'][1]) for g in good), default=0)
    nt = len(plan) > manh or any(a in ('ACTUATE', 'PICK_N_DROP') for a in plan)
    ctx.ev.case(case, nt=nt, classes=[fn + ':won', how] + extra_classes, key=[fn, p, d0],
                sample={'fn': fn, 'p': p, 'label': label, 'witness': plan[:40], 'how': how})


# ------------------------------------------------------------------ (b) long, thin layouts and adversarial placements

LARGE_FUNCTIONS = ['rooms', 'rooms', 'memory_rooms', 'crossing', 'empty', 'keydoor', 'teleport', 'memory']


def strat_large(tier):
    src = st.one_of(st.fixed_dictionaries({'seed': gen.seed_s}),
                    st.fixed_dictionaries({'mode': st.sampled_from(['low', 'high']), 'prefix': st.sampled_from([0, 1, 2, 4, 8, 16, 40, 200]), 'salt': st.integers(0, 7)}))
    return st.sampled_from(LARGE_FUNCTIONS).flatmap(lambda fn: st.fixed_dictionaries({'fn': st.just(fn), 'p': c13.long_params_s(fn, tier), 'rng': src}))


def oracle_large(case, ctx):
    """the reset function is called directly with either a seeded generator or an adversarial one (legal extreme outcomes: the agent
    or the exit in the last/first candidate cell, passages at the extreme candidate), then winnability is decided as in (a)"""
    from vgv.advrng import AdvRng
    from gym_gridverse.rng import make_rng
    fn, p, r = case['fn'], case['p'], case['rng']
    kw = dict(p)
    kw['shape'] = Shape(*p['shape'])
    if 'layout' in kw:
        kw['layout'] = tuple(kw['layout'])
    if 'colors' in kw:
        kw['colors'] = set(go.Color[c] for c in kw['colors'])
    if fn == 'crossing':
        kw['object_type'] = go.Wall
    rng = make_rng(r['seed']) if 'seed' in r else AdvRng(r['mode'], r['prefix'], r['salt'])
    try:
        s0 = REG[fn](**kw, rng=rng)
    except ValueError:
        ctx.ev.count(fn + ':rejected')
        return
    env = make_env(fn, p, 0)
    label = f'seed {r["seed"]}' if 'seed' in r else f'adversarial generator {r}'
    decide(ctx, case, fn, p, label, env, s0, ['long' if max(p['shape']) >= 31 else 'short', 'adversarial_rng' if 'mode' in r else 'seeded_rng'])


def enum_sweep(tier, shard, nshards):
    """every (length, number of rooms) pair up to the bound, rooms along one dimension; agent and exit at the extreme candidates"""
    top = 72 if tier == 'quick' else 160
    i = 0
    for L in range(5, top + 1):
        for r in range(1, min(16, (L - 1) // 2) + 1):
            for transposed in (False, True):
                i += 1
                if i % nshards != shard:
                    continue
                shape, layout = ([L, 5], [r, 1]) if not transposed else ([5, L], [1, r])
                yield {'fn': 'rooms', 'p': {'shape': shape, 'layout': layout},
                       'rng': {'mode': 'high' if (L + r) % 2 else 'low', 'prefix': 200 if i % 3 else 0, 'salt': i % 8}}


CHECKS = [
    Check('winnable', oracle, strategy=strat, examples={'quick': 700, 'thorough': 2500}, shards={'quick': 8, 'thorough': 16},
          rule='8 reset functions x parameters (as in C13) x seeds; a model plan is executed on the real functional_step; otherwise exhaustive BFS over the real step decides',
          required=[f + ':won' for f in FAMILY] + ['model_plan']),
    Check('long_layouts', oracle_large, strategy=strat_large, examples={'quick': 240, 'thorough': 1500}, shards={'quick': 8, 'thorough': 16},
          rule='one dimension up to 72 (thorough 130) with up to 14 rooms / 9 rivers along it, the other small; seeded and adversarial generators (agent/exit in the extreme candidate cells); same decision as (a)',
          required=['long', 'adversarial_rng', 'seeded_rng', 'rooms:won', 'crossing:won']),
    Check('layout_sweep', oracle_large, enumerate=enum_sweep, shards={'quick': 16, 'thorough': 16}, exhaustive=True,
          rule='rooms: every length 5..72 (thorough 160) x every number of rooms 1..16 that fits, both orientations, adversarial generator: winnable',
          required=['long', 'rooms:won']),
]
