"""C20 -- the gym adapter is a faithful view of the wrapped environment."""
import numpy as np
from hypothesis import strategies as st
from hypothesis.stateful import initialize, precondition, rule

from vgv import configs, envs, objs
from vgv.framework import Check, make_machine_base, replay_log
from vgv.objs import ACTIONS

import gym
from gym_gridverse.gym import STRING_TO_YAML_FILE, GymEnvironment, GymStateWrapper, outer_space_to_gym_space
from gym_gridverse.outer_env import OuterEnv
from gym_gridverse.representations.observation_representations import make_observation_representation
from gym_gridverse.representations.state_representations import make_state_representation

RULE = ('non-trivial history = at least one step that changes the observation and at least one representation switch; distinct by op log.')
ASSUMPTIONS = ['the representation code is trusted here as converter (it is the subject of C15/C16)',
               'gym 0.26: registered ids are reached through gym.make(id, disable_env_checker=True).unwrapped; seeding goes through inner_env.set_seed']

NAMES = ['default', 'no-overlap', 'compact']
FILE_TO_ID = {v: k for k, v in STRING_TO_YAML_FILE.items()}


def same_space(a, b):
    if sorted(a.spaces) != sorted(b.spaces):
        return False
    for k in a.spaces:
        x, y = a.spaces[k], b.spaces[k]
        if x.shape != y.shape or x.dtype != y.dtype or not np.array_equal(x.low, y.low) or not np.array_equal(x.high, y.high):
            return False
    return True


class Driver:
    def __init__(self, ctx, cfg, seed, via_registry):
        self.ctx = ctx
        self.cfg = cfg
        self.T = configs.build(cfg, seed)
        data = configs.data_of(cfg)
        # "the i-th action of the action space": taken from the configuration itself
        self.action_names = list(data['action_space']) if 'action_space' in data else list(ACTIONS)
        self.via_registry = bool(via_registry and not cfg['mods'] and cfg['base'] in FILE_TO_ID)
        if self.via_registry:
            self.env = gym.make(FILE_TO_ID[cfg['base']], disable_env_checker=True).unwrapped
            if not isinstance(self.env, GymEnvironment):
                self.fail('gym.make does not yield a GymEnvironment', 'registry')
            self.env.outer_env.inner_env.set_seed(seed)
            self.state_name = None
        else:
            inner = configs.build(cfg, seed)
            try:
                srep = make_state_representation('default', inner.state_space)
                self.state_name = 'default'
            except ValueError:
                srep, self.state_name = None, None
            self.env = GymEnvironment(OuterEnv(inner, state_representation=srep, observation_representation=make_observation_representation('default', inner.observation_space)))
        # what happened earlier in the process: when the configuration declares more colours / types than its base, an environment of the
        # base configuration (same shape, same maxima, other index tables) has been built, reconfigured and used before this one
        self.predecessor = False
        if cfg['mods'].get('more_colors') or cfg['mods'].get('more_objects'):
            base_cfg = {'base': cfg['base'], 'mods': {k: v for k, v in cfg['mods'].items() if k not in ('more_colors', 'more_objects')}}
            pinner = configs.build(base_cfg, seed)
            try:
                psrep = make_state_representation('default', pinner.state_space)
            except ValueError:
                psrep = None
            pre = GymEnvironment(OuterEnv(pinner, state_representation=psrep, observation_representation=make_observation_representation('default', pinner.observation_space)))
            for name in NAMES:
                pre.set_observation_representation(name)
                if psrep is not None:
                    pre.set_state_representation(name)
                pre.reset()
                pre.step(0)
            self.predecessor = True
        # a second live instance of the same registered id (or of the same data): touching it must not be felt here
        self.sibling = None
        self.sibling_ops = 0
        self.obs_name = 'default'
        self.wrapper = None
        self.sh = None
        self.sh_obs = None
        self.started = False
        self.obs_changes = 0
        self.switches = 0
        self.nops = 0
        self.last_obs = None
        if self.env.action_space.n != len(self.action_names):
            self.fail(f'gym action space has {self.env.action_space.n} actions, the configuration lists {len(self.action_names)}', 'action_space')
        self.check_spaces()

    def fail(self, msg, kind):
        self.ctx.fail(f'{self.cfg["base"]} {self.cfg["mods"]}{" (via registry)" if self.via_registry else ""}: {msg}', {'kind': kind})

    # expected values
    def exp_obs(self):
        return make_observation_representation(self.obs_name, self.T.observation_space).convert(self.sh_obs)

    def exp_state(self):
        return make_state_representation(self.state_name, self.T.state_space).convert(self.sh)

    def check_spaces(self):
        want = outer_space_to_gym_space(make_observation_representation(self.obs_name, self.T.observation_space).space)
        if not same_space(self.env.observation_space, want):
            self.fail(f'advertised observation_space is not the space of the "{self.obs_name}" observation representation', 'advertised_space')
        if self.state_name is not None:
            want = outer_space_to_gym_space(make_state_representation(self.state_name, self.T.state_space).space)
            if self.env.state_space is None or not same_space(self.env.state_space, want):
                self.fail(f'advertised state_space is not the space of the "{self.state_name}" state representation', 'advertised_space')

    def cmp(self, got, exp, what):
        if not isinstance(got, dict) or sorted(got) != sorted(exp):
            self.fail(f'{what}: keys {sorted(got) if isinstance(got, dict) else type(got)} != {sorted(exp)}', 'adapter_value')
        for k in exp:
            if not np.array_equal(got[k], exp[k]):
                self.fail(f'{what}[{k}] is not the "{self.obs_name if "obs" in what else self.state_name}" representation of the twin\'s {what.split()[-1]} (after {self.nops} ops)', 'adapter_value')

    def check_obs(self, obs, what):
        self.cmp(obs, self.exp_obs(), what + ' observation')
        if not self.env.observation_space.contains(obs):
            self.fail(f'{what}: returned observation is outside the advertised observation_space', 'adapter_space')
        key = {k: v.tobytes() for k, v in obs.items()}
        if self.last_obs is not None and key != self.last_obs:
            self.obs_changes += 1
        self.last_obs = key

    def check_state(self, st_, what):
        self.cmp(st_, self.exp_state(), what + ' state')
        if not self.env.state_space.contains(st_):
            self.fail(f'{what}: returned state is outside the advertised state_space', 'adapter_space')

    def shadow_reset(self):
        self.sh = self.T.functional_reset()
        self.sh_obs = self.T.functional_observation(self.sh)
        self.started = True

    def shadow_step(self, i):
        a = objs.action(self.action_names[i])
        self.sh, r, t = self.T.functional_step(self.sh, a)
        self.sh_obs = self.T.functional_observation(self.sh)
        return r, t

    def op_reset(self):
        self.nops += 1
        obs = self.env.reset()
        self.shadow_reset()
        self.check_obs(obs, 'reset')

    def op_step(self, i):
        self.nops += 1
        i %= len(self.action_names)
        out = self.env.step(i)
        if not (isinstance(out, tuple) and len(out) == 4):
            self.fail('step did not return (observation, reward, done, info)', 'adapter_value')
        obs, r, done, info = out
        r2, t2 = self.shadow_step(i)
        if float(r) != float(r2) or bool(done) != bool(t2):
            self.fail(f'step({i}) returned (reward {r}, done {done}); the {i}-th action {self.action_names[i]} of the action space gives ({r2}, {t2}) on the twin', 'adapter_action')
        self.check_obs(obs, f'step({i})')
        if not isinstance(info, dict):
            self.fail(f'step info is {type(info).__name__}, not a dict', 'adapter_value')
        self.check_retained()

    def check_retained(self):
        r = getattr(self, 'retained', None)
        if r is not None:
            info, snap = r
            if 'observation' not in info or sorted(info['observation']) != sorted(snap) or any(not np.array_equal(info['observation'][k], snap[k]) for k in snap):
                self.fail('the info dictionary returned by an earlier wrapper step was changed by a later step', 'wrapper')

    def op_read(self):
        self.nops += 1
        self.check_obs(self.env.observation, 'read')
        if self.state_name is not None:
            self.check_state(self.env.state, 'read')

    def op_set_obs_rep(self, name):
        self.nops += 1
        self.env.set_observation_representation(name)
        self.obs_name = name
        self.switches += 1
        self.check_spaces()
        self.last_obs = None
        if self.started:
            self.check_obs(self.env.observation, f'after set_observation_representation({name})')

    def op_set_state_rep(self, name):
        self.nops += 1
        try:
            make_state_representation(name, self.T.state_space)
        except ValueError:
            return  # state space that cannot be represented (documented)
        self.env.set_state_representation(name)
        self.state_name = name
        self.switches += 1
        self.check_spaces()
        if self.wrapper is not None:
            self.wrapper = GymStateWrapper(self.env)
        if self.started:
            self.check_state(self.env.state, f'after set_state_representation({name})')

    def op_reinstall(self, other, via):
        """the representation of the shared outer environment is replaced behind this adapter's back (by plain assignment, or by a second
        adapter around the same outer environment calling its own setter); this adapter then selects the name it had selected last again:
        that must install it again"""
        self.nops += 1
        outer = self.env.outer_env
        inner = outer.inner_env
        if via == 'assign':
            outer.observation_representation = make_observation_representation(other, inner.observation_space)
        else:
            GymEnvironment(outer).set_observation_representation(other)
        self.env.set_observation_representation(self.obs_name)
        self.check_spaces()
        self.last_obs = None
        self.reinstalls = getattr(self, 'reinstalls', 0) + 1
        if self.started:
            self.check_obs(self.env.observation, f'after the outer representation was replaced ({via}: {other}) and {self.obs_name} selected again')
        if self.state_name is not None:
            if via == 'assign':
                outer.state_representation = make_state_representation(other, inner.state_space)
            else:
                GymEnvironment(outer).set_state_representation(other)
            self.env.set_state_representation(self.state_name)
            self.check_spaces()
            if self.wrapper is not None:
                self.wrapper = GymStateWrapper(self.env)
            if self.started:
                self.check_state(self.env.state, f'after the outer state representation was replaced ({via}: {other}) and {self.state_name} selected again')

    def op_inner(self, kind, i):
        """the wrapped inner environment is public (`env.outer_env.inner_env`) and may be driven directly -- by the user, or by another
        adapter wrapped around the same inner environment; the adapter's reads are views of it and must follow"""
        self.nops += 1
        inner = self.env.outer_env.inner_env
        if kind == 'second_adapter':
            other = GymEnvironment(OuterEnv(inner, observation_representation=make_observation_representation('default', inner.observation_space)))
            if not self.started:
                other.reset()
                self.shadow_reset()
            else:
                i %= len(self.action_names)
                _, r, done, _ = other.step(i)
                r2, t2 = self.shadow_step(i)
                if float(r) != float(r2) or bool(done) != bool(t2):
                    self.fail(f'a second adapter around the same inner environment: step({i}) returned ({r}, {done}), twin ({r2}, {t2})', 'adapter_action')
        elif kind == 'reset' or not self.started:
            inner.reset()
            self.shadow_reset()
        else:
            i %= len(self.action_names)
            r, t = inner.step(objs.action(self.action_names[i]))
            r2, t2 = self.shadow_step(i)
            if float(r) != float(r2) or bool(t) != bool(t2):
                self.fail(f'inner step({self.action_names[i]}) returned ({r}, {t}), twin ({r2}, {t2})', 'adapter_action')
        self.inner_ops = getattr(self, 'inner_ops', 0) + 1
        self.last_obs = None
        self.check_obs(self.env.observation, f'read after the inner environment was driven directly ({kind})')
        if self.state_name is not None:
            self.check_state(self.env.state, f'read after the inner environment was driven directly ({kind})')

    def op_sibling(self, kind, i):
        """another instance of the same id / configuration is created, seeded, reset, stepped or reconfigured"""
        self.nops += 1
        if self.sibling is None:
            if self.via_registry:
                self.sibling = gym.make(FILE_TO_ID[self.cfg['base']], disable_env_checker=True).unwrapped
            else:
                inner = configs.build(self.cfg, i)
                self.sibling = GymEnvironment(OuterEnv(inner, observation_representation=make_observation_representation('default', inner.observation_space)))
            self.sibling.outer_env.inner_env.set_seed(i + 1)
            self.sibling.reset()
        sib = self.sibling
        if kind == 'seed':
            sib.outer_env.inner_env.set_seed(i)
        elif kind == 'reset':
            sib.reset()
        elif kind == 'step':
            _, _, done, _ = sib.step(i % sib.action_space.n)
            if done:
                sib.reset()
        else:
            sib.set_observation_representation(NAMES[i % 3])
        self.sibling_ops += 1
        if self.started:
            # the instance under test is untouched: its reads still describe the twin's state, its spaces its own representation
            self.check_spaces()
            self.check_obs(self.env.observation, f'read after the sibling instance was touched ({kind})')

    def _wrapper(self):
        if self.state_name is None:
            return None
        if self.wrapper is None:
            self.wrapper = GymStateWrapper(self.env)
        w = self.wrapper
        if not same_space(w.observation_space, self.env.state_space):
            self.fail('the state wrapper does not advertise the environment\'s state space as its observation_space', 'wrapper')
        return w

    def op_wrapped_reset(self):
        self.nops += 1
        w = self._wrapper()
        if w is None:
            return
        st_ = w.reset()
        self.shadow_reset()
        self.check_state(st_, 'wrapper reset')
        self.last_obs = None

    def op_wrapped_step(self, i):
        self.nops += 1
        w = self._wrapper()
        if w is None:
            return
        i %= len(self.action_names)
        st_, r, done, info = w.step(i)
        r2, t2 = self.shadow_step(i)
        if float(r) != float(r2) or bool(done) != bool(t2):
            self.fail(f'wrapper step({i}) returned (reward {r}, done {done}), twin ({r2}, {t2})', 'adapter_action')
        self.check_state(st_, f'wrapper step({i})')
        if not isinstance(info, dict) or 'observation' not in info:
            self.fail(f'wrapper step info {sorted(info) if isinstance(info, dict) else type(info)} does not carry the observation', 'wrapper')
        self.check_obs(info['observation'], f'wrapper step({i}) info')
        self.check_retained()
        # a caller may keep the info of step t: it must still hold the observation of step t after later steps
        self.retained = (info, {k: v.copy() for k, v in info['observation'].items()})
        if w.unwrapped is not self.env:
            self.fail('wrapper.unwrapped is not the wrapped environment', 'wrapper')

    def finish(self):
        cl = ['cfg:' + self.cfg['base'].replace('.yaml', ''), 'registry' if self.via_registry else 'direct']
        if self.obs_changes:
            cl.append('observation_changed')
        if self.switches:
            cl.append('representation_switch')
        if self.wrapper is not None:
            cl.append('state_wrapper')
        if self.action_names != ACTIONS[: len(self.action_names)]:
            cl.append('reordered_actions')
        if getattr(self, 'inner_ops', 0):
            cl.append('inner_driven_directly')
        if getattr(self, 'reinstalls', 0):
            cl.append('representation_replaced_then_reselected')
        if self.sibling_ops and self.obs_changes:
            cl.append('sibling_touched' + ('_registry' if self.via_registry else ''))
        if self.predecessor and self.switches:
            cl.append('predecessor_with_smaller_spaces')
        self.ctx.ev.case(None, nt=(self.obs_changes > 0 and self.switches > 0), classes=cl,
                         key=getattr(self, 'log', None) or [self.cfg, self.nops],
                         sample={'op_log (first 40)': getattr(self, 'log', [])[:40], 'cfg': self.cfg, 'via_registry': self.via_registry, 'ops': self.nops, 'observation_changes': self.obs_changes, 'switches': self.switches})


def machine(tier, ctx, last):
    Base = make_machine_base()
    built = precondition(lambda self: self.driver is not None)
    started = precondition(lambda self: self.driver is not None and self.driver.started)

    class C20Machine(Base):
        DRIVER = Driver
        CTX = ctx
        LAST = last

        @initialize(cfg=configs.config_s(), seed=st.integers(0, 2**32 - 1), via=st.booleans())
        def init(self, cfg, seed, via):
            self.start(cfg, seed, via)

        @built
        @rule()
        def reset(self):
            self.op('reset')

        @started
        @rule(i=st.integers(0, 7))
        def step(self, i):
            self.op('step', i)

        @started
        @rule()
        def read(self):
            self.op('read')

        @built
        @rule(name=st.sampled_from(NAMES))
        def set_obs_rep(self, name):
            self.op('set_obs_rep', name)

        @built
        @rule(name=st.sampled_from(NAMES))
        def set_state_rep(self, name):
            self.op('set_state_rep', name)

        @built
        @rule(other=st.sampled_from(NAMES), via=st.sampled_from(['assign', 'second_adapter']))
        def reinstall(self, other, via):
            self.op('reinstall', other, via)

        @built
        @rule(kind=st.sampled_from(['step', 'step', 'reset', 'second_adapter']), i=st.integers(0, 7))
        def inner(self, kind, i):
            self.op('inner', kind, i)

        @built
        @rule(kind=st.sampled_from(['seed', 'reset', 'step', 'step', 'rep']), i=st.integers(0, 7))
        def sibling(self, kind, i):
            self.op('sibling', kind, i)

        @built
        @rule()
        def wrapped_reset(self):
            self.op('wrapped_reset')

        @started
        @rule(i=st.integers(0, 7))
        def wrapped_step(self, i):
            self.op('wrapped_step', i)

    return C20Machine


def oracle(log, ctx):
    replay_log(Driver, log, ctx)


def enum_all(tier, shard, nshards):
    """every shipped configuration, directly and through its registered id, with a fixed op script"""
    i = 0
    for n in envs.shipped_names():
        for via in (False, True):
            if via and n not in FILE_TO_ID:
                continue
            i += 1
            if i % nshards == shard:
                yield [['init', {'base': n, 'mods': {}}, 7 + i, via], ['reset'], ['step', 0], ['step', 2], ['read'], ['set_obs_rep', 'compact'], ['step', 1], ['step', 5],
                       ['set_state_rep', 'no-overlap'], ['wrapped_step', 0], ['wrapped_reset'], ['wrapped_step', 3], ['set_obs_rep', 'default'], ['step', 4], ['read'], ['reset'], ['step', 0],
                       ['reinstall', 'no-overlap', 'assign'], ['read'], ['reinstall', 'compact', 'second_adapter'], ['inner', 'step', 1], ['read'], ['inner', 'second_adapter', 2], ['inner', 'reset', 0], ['step', 3], ['sibling', 'seed', 3], ['sibling', 'step', 1], ['step', 2], ['sibling', 'reset', 0], ['step', 0], ['sibling', 'rep', 2], ['read'], ['step', 1]]


# ------------------------------------------------------------------ a reset function that re-uses one State object


def enum_kept(tier, shard, nshards):
    for i, (obs, rep) in enumerate([(o, r) for o in ('partially_occluded', 'raytracing', 'fully_transparent') for r in NAMES]):
        if i % nshards == shard:
            yield {'obs': obs, 'rep': rep}


def oracle_kept(case, ctx):
    """a fixed map whose reset function keeps one State object and re-spawns the agent in it; the gym adapter is reset twice in a row,
    stepped, reset again ...: every returned observation is the encoding of the observation of the state the environment is in now"""
    from gym_gridverse.envs.gridworld import GridWorld
    from gym_gridverse.geometry import Position
    from vgv import gen
    rows = [['W', 'W', 'W', 'W', 'W'], ['W', 'F', 'F', 'K:RED', 'W'], ['W', 'F', 'W', 'F', 'W'], ['W', 'D:CLOSED:RED', 'F', 'E:NONE', 'W'], ['W', 'W', 'W', 'W', 'W']]
    sd = {'grid': rows, 'agent': [1, 1, 'F', '_']}
    space = {'types': ['Floor', 'Wall', 'Key', 'Door', 'Exit'], 'colors': ['NONE', 'RED']}
    comp = {'chain': ['move_agent', 'turn_agent'], 'rewards': [{'name': 'living_reward', 'reward': -1.0}], 'term': {'name': 'reach_exit'}, 'obs': case['obs'], 'view': [3, 3]}
    ref = envs.mk_env(space, (5, 5), comp, reset_state=sd)
    kept = objs.build_state(sd)
    spawn = [(1, 1, 'F'), (3, 2, 'L'), (1, 2, 'R'), (2, 3, 'B'), (2, 1, 'F')]
    n = [0]

    def reset(*, rng=None):
        y, x, hd = spawn[n[0] % len(spawn)]
        n[0] += 1
        kept.agent.position = Position(y, x)
        kept.agent.orientation = objs.ori(hd)
        return kept

    inner = GridWorld(ref.state_space, ref.action_space, ref.observation_space, reset, envs.mk_transition(comp['chain']), envs.mk_obs(comp['obs'], gen.view_area(3, 3)),
                      envs.mk_rewards(comp['rewards']), envs.mk_term(comp['term']))
    inner.set_seed(3)
    env = GymEnvironment(OuterEnv(inner, observation_representation=make_observation_representation(case['rep'], inner.observation_space)))
    fresh = make_observation_representation(case['rep'], inner.observation_space)

    def check(obs, what):
        exp = fresh.convert(envs.mk_obs(comp['obs'], gen.view_area(3, 3))(inner.state))
        if sorted(obs) != sorted(exp) or any(not np.array_equal(obs[k], exp[k]) for k in exp):
            ctx.fail(f'{what}: the returned observation ({case["obs"]}, {case["rep"]}) is not the encoding of the observation of the state the environment is in now '
                     f'(agent at {(inner.state.agent.position.y, inner.state.agent.position.x)})', {'kind': 'adapter_value', 'aspect': 'kept_reset_state'})
        if not env.observation_space.contains(obs):
            ctx.fail(f'{what}: returned observation outside the advertised space', {'kind': 'adapter_space'})

    script = ['reset', 'reset', 'step', 'reset', 'reset', 'reset', 'step', 'step', 'reset']
    for k, op in enumerate(script):
        if op == 'reset':
            check(env.reset(), f'reset number {script[:k + 1].count("reset")} (op {k})')
        else:
            obs, r, done, info = env.step(k % env.action_space.n)
            check(obs, f'step (op {k})')
    ctx.ev.case(case, nt=True, classes=['kept_reset_state', 'obs:' + case['obs']])


CHECKS = [
    Check('adapter_machine', oracle, machine=machine, examples={'quick': 60, 'thorough': 200}, steps={'quick': 30, 'thorough': 50}, shards={'quick': 8, 'thorough': 16},
          rule='rule-based machine (reset, step(i), reads, set_state/observation_representation, state-wrapper reset/step, a sibling instance of the same id touched in between; the wrapped inner environment driven directly or through a second adapter; an environment of the base configuration used earlier when the spaces were extended) on shipped and perturbed configurations (re-ordered action lists), direct and via registered ids, vs. a functionally driven twin',
          required=['observation_changed', 'representation_switch', 'state_wrapper', 'registry', 'direct', 'reordered_actions', 'sibling_touched_registry', 'predecessor_with_smaller_spaces', 'inner_driven_directly', 'representation_replaced_then_reselected']),
    Check('all_shipped_scripted', oracle, enumerate=enum_all, shards={'quick': 8, 'thorough': 8},
          rule='all 22 shipped configurations directly and all 21 registered ids through the registry x a fixed 24-op script covering every adapter operation, including a second live instance of the same id being seeded, stepped, reset and reconfigured in between'),
    Check('kept_reset_state', oracle_kept, enumerate=enum_kept, shards={'quick': 3, 'thorough': 3}, exhaustive=True,
          rule='a GridWorld whose reset function re-uses one State object and re-spawns the agent in it, behind OuterEnv and GymEnvironment x 3 observation functions x 3 representations: resets back to back, steps, resets: every returned observation is the encoding of the observation of the current state',
          required=['kept_reset_state']),
]
