"""C19 -- rays are connected paths that sweep the whole area."""
import itertools
import math

import numpy as np
from hypothesis import strategies as st

from vgv import objs
from vgv.framework import Check, guarded

from gym_gridverse.envs.visibility_functions import visibility_function_registry as VIS
from gym_gridverse.geometry import Area, Position
from gym_gridverse.grid import Grid
from gym_gridverse.utils import raytracing as rt

RULE = 'non-trivial = areas with at least 2 cells; distinct by (area, origin[, angle]).'
ASSUMPTIONS = ['step size 0.01 (the one the library uses) and 0.02/0.005 for single rays', 'exhaustive only up to the stated area bound']


def check_ray(ctx, ray, origin, a, what):
    """a = [[ymin, ymax], [xmin, xmax]]"""
    sig = {'kind': 'ray'}
    cells = [(int(p.y), int(p.x)) for p in ray]
    if not cells or cells[0] != tuple(origin):
        ctx.fail(f'{what}: ray does not start at its origin {origin}: {cells[:3]}', sig)
    for c in cells:
        if not (a[0][0] <= c[0] <= a[0][1] and a[1][0] <= c[1] <= a[1][1]):
            ctx.fail(f'{what}: ray leaves the area {a} at {c}', sig)
    if len(set(cells)) != len(cells):
        ctx.fail(f'{what}: ray visits a cell twice: {cells}', sig)
    for p, q in zip(cells, cells[1:]):
        if max(abs(p[0] - q[0]), abs(p[1] - q[1])) != 1:
            ctx.fail(f'{what}: ray jumps between non-adjacent cells {p} -> {q}', sig)
    last = cells[-1]
    if not (last[0] in (a[0][0], a[0][1]) or last[1] in (a[1][0], a[1][1])):
        ctx.fail(f'{what}: ray from {origin} ends at {last}, not on the border of area {a}', sig)
    return cells


def check_fan(ctx, rays, origin, a, what):
    covered = set()
    for k, ray in enumerate(rays):
        covered.update(check_ray(ctx, ray, origin, a, f'{what} ray {k}'))
    allc = {(y, x) for y in range(a[0][0], a[0][1] + 1) for x in range(a[1][0], a[1][1] + 1)}
    if covered != allc:
        ctx.fail(f'{what}: the fan from {origin} in area {a} never reaches {sorted(allc - covered)[:5]}', {'kind': 'fan_coverage'})
    return covered


def as_cells(rays):
    return [[(int(p.y), int(p.x)) for p in r] for r in rays]


# ------------------------------------------------------------------ (a) exhaustive fans


def areas_for(tier):
    if tier == 'quick':
        dims = [(h, w) for h in range(1, 6) for w in range(1, 8)] + [(7, 7), (6, 6), (7, 5)]
    else:
        dims = [(h, w) for h in range(1, 10) for w in range(1, 10)]
    return sorted(set(dims), key=lambda d: (d[0] * d[1], d))


def enum_fans(tier, shard, nshards):
    i = 0
    for (h, w) in areas_for(tier):
        for y in range(h):
            for x in range(w):
                i += 1
                if i % nshards == shard:
                    yield {'h': h, 'w': w, 'y': y, 'x': x}


def oracle_fan(case, ctx):
    h, w, y, x = case['h'], case['w'], case['y'], case['x']
    a = [[0, h - 1], [0, w - 1]]
    A = objs.build_area(a)
    rays = guarded(ctx, 'compute_rays_fancy', rt.compute_rays_fancy, Position(y, x), A)
    check_fan(ctx, rays, (y, x), a, f'{h}x{w}')
    # deterministic, cached == uncached
    again = rt.compute_rays_fancy(Position(y, x), A)
    cached = rt.cached_compute_rays_fancy(Position(y, x), A)
    if as_cells(again) != as_cells(rays) or as_cells(cached) != as_cells(rays):
        ctx.fail(f'fan from {(y, x)} in {h}x{w}: recomputation or cached result differs', {'kind': 'ray_determinism'})
    # an unobstructed ray-traced view shows everything
    g = Grid.from_shape((h, w))
    vis = VIS['raytracing'](g, Position(y, x))
    if vis.shape != (h, w) or not bool(np.all(vis)):
        ctx.fail(f'unobstructed raytracing from {(y, x)} in {h}x{w} hides {int((~vis).sum())} cells', {'kind': 'fan_coverage'})
    ctx.ev.case(case, nt=(h * w >= 2), classes=[f'{h}x{w}'] if (h, w) in ((7, 7), (9, 9), (1, 1)) else ['area'])


# ------------------------------------------------------------------ (b) single rays at arbitrary offsets and angles


def strat_ray(tier):
    off = st.integers(-10**6, 10**6) | st.integers(-3, 3)
    # strips far longer than anything else a process has traced so far (tables and buffers sized by earlier queries)
    strips = st.fixed_dictionaries({
        'oy': off, 'ox': off, 'h': st.sampled_from([1, 2, 3]), 'w': st.sampled_from([400, 700, 701, 1400] + ([3000] if tier == 'thorough' else [])),
        'py': st.integers(0, 2), 'px': st.sampled_from([0, 1, -1, -1, -2]), 'rad': st.sampled_from([0.0, math.pi, math.pi, 3.1, -3.13, 0.002]),
        'step': st.just(0.01), 'fn': st.just('ray'), 'transpose': st.booleans()})
    usual = st.fixed_dictionaries({
        'oy': off, 'ox': off, 'h': st.integers(1, 11) | st.sampled_from([1, 16, 24, 33, 40]), 'w': st.integers(1, 11) | st.sampled_from([1, 16, 21, 40, 90]),
        'py': st.integers(0, 10) | st.integers(0, 100), 'px': st.integers(0, 10) | st.integers(0, 100),
        'rad': st.floats(-10.0, 10.0, allow_nan=False) | st.sampled_from([0.0, math.pi / 2, math.pi, -math.pi / 2, math.pi / 4, 3 * math.pi / 4, math.atan2(1, 2)]),
        'step': st.sampled_from([0.01, 0.01, 0.02, 0.005]),
        'fn': st.sampled_from(['ray', 'ray', 'rays360', 'fancy']),
    })
    return st.one_of([usual] * 14 + [strips])


_FIRST = [False]


def longest_first(ctx):
    """the first ray a process traces is by far its longest (tables and buffers that grow with demand start from their initial size):
    shard k begins with a strip of 700 / 1400 / 2800 / 701 cells traced from end to end, forwards and backwards"""
    if _FIRST[0]:
        return
    _FIRST[0] = True
    L = [700, 1400, 2800, 701][ctx.shard % 4]
    for (h, w, origin, rad) in ((1, L, (0, L - 1), math.pi), (3, L, (1, 0), 0.0), (L, 2, (L - 1, 1), -math.pi / 2)):
        a = [[0, h - 1], [0, w - 1]]
        ray = rt.compute_ray(Position(*origin), objs.build_area(a), radians=rad, step_size=0.01)
        cells = check_ray(ctx, ray, origin, a, f'first query of the process, a {h}x{w} strip from {origin} at angle {rad}')
        if len(cells) < L and h <= 3:
            ctx.fail(f'first query of the process: the ray along a {h}x{w} strip from {origin} visits only {len(cells)} cells', {'kind': 'ray'})
    if ctx.shard % 4 == 0 and not ctx.replaying:
        # a 360-degree fan over a corridor of more than 10,000 cells (step counts in the millions)
        h, w = 3, 10500
        a = [[0, h - 1], [0, w - 1]]
        for k, ray in enumerate(rt.compute_rays(Position(1, 0), objs.build_area(a))):
            check_ray(ctx, ray, (1, 0), a, f'360-degree fan over a {h}x{w} corridor, ray {k}')
        ctx.ev.count('prelude:corridor_10500')
    ctx.ev.count(f'prelude:longest_first_{L}')


def oracle_ray(case, ctx):
    longest_first(ctx)
    h, w = case['h'], case['w']
    py, px, rad = case['py'], case['px'], case['rad']
    if case.get('transpose'):
        h, w, py, px, rad = w, h, px, py, math.pi / 2 - rad
    a = [[case['oy'], case['oy'] + h - 1], [case['ox'], case['ox'] + w - 1]]
    origin = (case['oy'] + py % h, case['ox'] + px % w)
    A = objs.build_area(a)
    P = Position(*origin)
    if case['fn'] == 'ray':
        ray = guarded(ctx, 'compute_ray', rt.compute_ray, P, A, radians=rad, step_size=case['step'])
        check_ray(ctx, ray, origin, a, f'angle {rad} step {case["step"]}')
        again = rt.compute_ray(P, A, radians=rad, step_size=case['step'])
        if as_cells([again]) != as_cells([ray]):
            ctx.fail('compute_ray is not deterministic', {'kind': 'ray_determinism'})
    elif case['fn'] == 'rays360':
        if h * w <= 49:
            rays = guarded(ctx, 'compute_rays', rt.compute_rays, P, A)
            for k, r in enumerate(rays):
                check_ray(ctx, r, origin, a, f'compute_rays ray {k}')
            if len(rays) != 360:
                ctx.fail('compute_rays does not return 360 rays', {'kind': 'fan_size'})
    else:
        if h * w <= 49:
            rays = guarded(ctx, 'compute_rays_fancy', rt.compute_rays_fancy, P, A)
            check_fan(ctx, rays, origin, a, f'offset fan {h}x{w}')
    # outside origin must be rejected
    try:
        rt.compute_ray(Position(a[0][1] + 1, a[1][0]), A, radians=0.3, step_size=0.01)
    except ValueError:
        pass
    else:
        ctx.fail('compute_ray accepts an origin outside the area', {'kind': 'ray'})
    ctx.ev.case(case, nt=(h * w >= 2), classes=['fn:' + case['fn'], 'far_offset' if abs(case['oy']) > 1000 else 'near_offset'] + (['large_area'] if max(h, w) >= 16 else []) + (['strip>=400'] if max(h, w) >= 400 else []))


# ------------------------------------------------------------------ (c) query histories (caching)

small_q = st.tuples(st.integers(1, 5), st.integers(1, 5), st.integers(0, 4), st.integers(0, 4), st.integers(-2, 2), st.integers(-2, 2)).map(list)


def strat_hist(tier):
    return st.fixed_dictionaries({'queries': st.lists(small_q, min_size=2, max_size=12), 'scribble': st.booleans(), 'both_fans': st.sampled_from([0, 1, 2]), 'kw': st.sampled_from([0, 0, 1, 2])})


def oracle_hist(case, ctx):
    first = {}
    kinds = 0
    for q in case['queries']:
        h, w, py, px, oy, ox = q
        a = [[oy, oy + h - 1], [ox, ox + w - 1]]
        origin = (oy + py % h, ox + px % w)
        A, P = objs.build_area(a), Position(*origin)
        # the library offers two memoised fans (360 one-degree rays; rays through the corners of the border cells): a caller may use both
        # for the same origin and area, in either order
        both = case.get('both_fans', 0) if len(first) < 2 else 0
        if both == 1:
            r360 = guarded(ctx, 'cached_compute_rays', rt.cached_compute_rays, P, A)
        # (the memoised helpers take their arguments positionally or by keyword, like any Python function)
        style = case.get('kw', 0)
        if style == 1:
            cached = guarded(ctx, 'cached_compute_rays_fancy', rt.cached_compute_rays_fancy, P, area=A)
        elif style == 2:
            cached = guarded(ctx, 'cached_compute_rays_fancy', rt.cached_compute_rays_fancy, position=P, area=A)
        else:
            cached = guarded(ctx, 'cached_compute_rays_fancy', rt.cached_compute_rays_fancy, P, A)
        if both == 2:
            r360 = guarded(ctx, 'cached_compute_rays', rt.cached_compute_rays, P, A)
        if both:
            if as_cells(r360) != as_cells(rt.compute_rays(P, A)):
                ctx.fail(f'cached 360-degree fan for origin {origin} area {a} differs from an uncached computation ({"asked before" if both == 1 else "asked after"} the corner fan)', {'kind': 'ray_cache'})
            for k, r in enumerate(r360):
                check_ray(ctx, r, origin, a, f'cached 360-degree fan ray {k}')
        cells = as_cells(cached)
        check_fan(ctx, cached, origin, a, f'after {len(first)} other queries, {h}x{w}')
        fresh = as_cells(rt.compute_rays_fancy(P, A))
        if fresh != cells:
            ctx.fail(f'cached fan for origin {origin} area {a} differs from an uncached computation', {'kind': 'ray_cache'})
        key = (tuple(origin), json_key(a))
        if key in first and first[key] != cells:
            ctx.fail(f'the fan for origin {origin} area {a} changed after other queries', {'kind': 'ray_cache'})
        if key in first:
            kinds += 1
        first.setdefault(key, cells)
        if case['scribble']:
            # a caller mutating *its copy* of the result must not affect later answers
            mine = [list(r) for r in cached]
            for r in mine:
                r.clear()
            mine.clear()
    ctx.ev.case(case, nt=(len(first) >= 2), classes=(['repeat_query'] if kinds else ['distinct_queries']) + ([f'both_fans:{case.get("both_fans", 0)}'] if case.get('both_fans') else []) + (['keyword_arguments'] if case.get('kw') else []))


def json_key(a):
    return (a[0][0], a[0][1], a[1][0], a[1][1])


CHECKS = [
    Check('fans_exhaustive', oracle_fan, enumerate=enum_fans, shards={'quick': 16, 'thorough': 16}, exhaustive=True,
          rule='every area up to 5x7 plus 6x6, 7x5, 7x7 (thorough: every area up to 9x9) x every origin x every ray of the fan: start, containment, uniqueness, 8-adjacency, border end; coverage; unobstructed visibility; cached == uncached',
          required=['7x7']),
    Check('single_rays', oracle_ray, strategy=strat_ray, examples={'quick': 600, 'thorough': 3000}, shards={'quick': 4, 'thorough': 16},
          rule='areas up to 11x11 (also up to 40x90, and strips of 1-3 x 400..1400 cells traced end to end) at arbitrary (also huge) integer offsets x origin x arbitrary angle x step size; 360-degree and corner fans at offsets',
          required=['far_offset', 'fn:ray', 'fn:fancy', 'fn:rays360', 'large_area', 'strip>=400']),
    Check('query_histories', oracle_hist, strategy=strat_hist, examples={'quick': 150, 'thorough': 600}, shards={'quick': 4, 'thorough': 16},
          rule='sequences of 2-12 fan queries (same origin in different areas, repeats) through the cache: every answer valid, equal to an uncached computation and to the first answer for that key',
          required=['repeat_query', 'both_fans:1', 'both_fans:2', 'keyword_arguments']),
]
