"""C17 -- configurations build exactly the environment they describe, or are rejected."""
import copy
import functools
import inspect
import os

from hypothesis import strategies as st
from schema import SchemaError

from vgv import configs, envs, gen, model as M, objs, trace
from vgv.framework import Check, REPO_DIR, guarded

import gym
from gym_gridverse.envs import (observation_functions as obs_fs, reset_functions as reset_fs, reward_functions as reward_fs,
                                terminating_functions as term_fs, transition_functions as trans_fs, visibility_functions as vis_fs)
from gym_gridverse.envs.yaml.factory import factory_env_from_data, factory_env_from_yaml
from gym_gridverse.gym import STRING_TO_YAML_FILE
from gym_gridverse.rng import make_rng

RULE = ('non-trivial = (differential) a trajectory of >= 10 steps with a non-zero reward; (corruptions) every distinct (file, corruption); '
        '(factory) parameter sets containing an unaccepted or falsy-valued parameter.')
ASSUMPTIONS = ['PyYAML (vendored, pure Python) is trusted as the parser of the shipped files', 'malformed *areas* are not in the property\'s rejection list and are not asserted']


# ------------------------------------------------------------------ (1) packaged copies and registry ids


def enum_files(tier, shard, nshards):
    for i, name in enumerate(sorted(STRING_TO_YAML_FILE)):
        if i % nshards == shard:
            yield {'id': name}
    if shard == 0:
        yield {'id': '*directory*'}


def oracle_files(case, ctx):
    ydir, pdir = os.path.join(REPO_DIR, 'yaml'), os.path.join(REPO_DIR, 'gym_gridverse', 'registered_envs')
    if case['id'] == '*directory*':
        a, b = sorted(os.listdir(ydir)), sorted(os.listdir(pdir))
        if a != b:
            ctx.fail(f'yaml/ and gym_gridverse/registered_envs/ list different files: {sorted(set(a) ^ set(b))}', {'kind': 'packaged'})
        if sorted(STRING_TO_YAML_FILE.values()) != a:
            ctx.fail('the registered ids do not cover exactly the packaged files', {'kind': 'packaged'})
        ctx.ev.case(case, nt=True, classes=['directory'])
        return
    fname = STRING_TO_YAML_FILE[case['id']]
    with open(os.path.join(ydir, fname), 'rb') as f1, open(os.path.join(pdir, fname), 'rb') as f2:
        if f1.read() != f2.read():
            ctx.fail(f'{fname}: the packaged copy differs from yaml/{fname}', {'kind': 'packaged'})
    spec = gym.envs.registry[case['id']]
    path = spec.kwargs['factory'].args[0]
    if os.path.basename(path) != fname or os.path.realpath(os.path.dirname(path)) != os.path.realpath(pdir):
        ctx.fail(f'gym id {case["id"]} points to {path}, not to the packaged {fname}', {'kind': 'registry'})
    want = ''.join(w for w in case['id'].replace('GV-', '').replace('-v0', '').lower() if w.isalnum())
    if ''.join(w for w in fname.replace('gv_', '').replace('.yaml', '') if w.isalnum()).replace('_', '') != want:
        ctx.fail(f'gym id {case["id"]} is mapped to a file of another name: {fname}', {'kind': 'registry'})
    env = guarded(ctx, 'factory_env_from_yaml', factory_env_from_yaml, path)
    env.set_seed(0)
    env.reset()
    ctx.ev.case(case, nt=True, classes=['id'])


# ------------------------------------------------------------------ (2)-(4) differential against the hand assembly


def strat_diff(tier):
    return st.fixed_dictionaries({'cfg': configs.config_s(), 'seed': gen.seed_s,
                                  'actions': st.lists(st.integers(0, 7), min_size=3, max_size=40 if tier == 'quick' else 150)})


def enum_shipped(tier, shard, nshards):
    i = 0
    for n in envs.shipped_names():
        for s in range(2 if tier == 'quick' else 6):
            i += 1
            if i % nshards == shard:
                yield {'cfg': {'base': n, 'mods': {}}, 'seed': 1000 + s, 'actions': [(j * 5 + s) % 8 for j in range(40)] + [0, 0, 6, 7, 0]}


def oracle_diff(case, ctx):
    cfg = case['cfg']
    data = configs.data_of(cfg)
    pristine = copy.deepcopy(data)
    built = guarded(ctx, f'factory_env_from_data({cfg["base"]} {cfg["mods"]})', factory_env_from_data, data)
    if data != pristine:
        diff = [k for k in pristine if data.get(k) != pristine[k]]
        ctx.fail(f'{cfg["base"]} {cfg["mods"]}: building changed the caller\'s data tree (keys {diff})', {'kind': 'input_mutated'})
    again = guarded(ctx, 'second build from the same data object', factory_env_from_data, data)
    if data != pristine:
        ctx.fail(f'{cfg["base"]}: the second build changed the caller\'s data tree', {'kind': 'input_mutated'})
    hand = envs.hand_assemble(copy.deepcopy(pristine))
    ops = [['reset']] + [['step', a] for a in case['actions']] + [['obs'], ['state']]
    for i, a in enumerate(case['actions']):
        if i % 7 == 3:
            ops.insert(2 + i, ['obs'])
    traces = []
    for env in (built, again, hand):
        env.set_seed(case['seed'])
        traces.append(trace.run_ops(env, ops))
    if traces[0] != traces[1]:
        ctx.fail(f'{cfg["base"]} {cfg["mods"]}: two builds from the same data behave differently', {'kind': 'repeatable'})
    # the caller goes on to edit its own tree in place (another view area, another shape, other lists) and builds that; a later build
    # from a tree with the original content must be the original environment
    def scribble(node):
        if isinstance(node, dict):
            for v in node.values():
                scribble(v)
        elif isinstance(node, list):
            for v in node:
                scribble(v)
            if node and all(isinstance(v, int) and not isinstance(v, bool) for v in node):
                node[-1] = node[-1] + 2 if node[-1] >= 0 else node[-1] - 2
    scribble(data)
    try:
        factory_env_from_data(data)
    except Exception:  # noqa: BLE001 -- the edited tree may or may not be a valid configuration; either way it is the caller's business
        pass
    later = guarded(ctx, 'a build from a fresh tree with the original content, after the first tree was edited in place', factory_env_from_data, copy.deepcopy(pristine))
    later.set_seed(case['seed'])
    tl = trace.run_ops(later, ops)
    if trace.first_difference(traces[0], tl) is not None or later.observation_space.grid_shape != built.observation_space.grid_shape or later.state_space.grid_shape != built.state_space.grid_shape:
        ctx.fail(f'{cfg["base"]} {cfg["mods"]}: after the caller edited the lists of its first data tree in place, a build from a fresh tree with the original content differs from the first build '
                 f'(view {later.observation_space.grid_shape} vs {built.observation_space.grid_shape})', {'kind': 'repeatable', 'aspect': 'edited_tree'})
    k = trace.first_difference(traces[0], traces[2])
    if k is not None:
        x, y = traces[0][k], traces[2][k]
        detail = f'built {str(x)[:150]} vs described {str(y)[:150]}'
        if x[0] == 'step' and y[0] == 'step':
            detail = f'step {x[1]}: built (reward {x[2]}, done {x[3]}, agent {x[4]["agent"]}) vs described (reward {y[2]}, done {y[3]}, agent {y[4]["agent"]})'
        ctx.fail(f'{cfg["base"]} {cfg["mods"]} seed {case["seed"]}: the built environment differs from the one assembled by hand from the named components at trace entry {k}: {detail}',
                 {'kind': 'differential'})
    for sp in ('state_space', 'observation_space'):
        a, b = getattr(built, sp), getattr(hand, sp)
        if a.grid_shape != b.grid_shape or set(a.object_types) != set(b.object_types) or a.colors != b.colors:
            ctx.fail(f'{cfg["base"]}: {sp} of the built environment differs from the described one', {'kind': 'differential'})
    if [x.name for x in built.action_space.actions] != [x.name for x in hand.action_space.actions]:
        ctx.fail(f'{cfg["base"]}: action space {[x.name for x in built.action_space.actions]} differs from the described list', {'kind': 'differential'})
    nz = any(e[0] == 'step' and e[2] != 0 for e in traces[0])
    ctx.ev.case(case, nt=(len(case['actions']) >= 10 and nz), classes=['cfg:' + cfg['base'].replace('.yaml', '')] + (['perturbed'] if cfg['mods'] else ['shipped'])
                + [f'mod:{k}' for k in cfg['mods']])


# ------------------------------------------------------------------ (4b) the same through files: factory_env_from_yaml


def strat_file(tier):
    return st.fixed_dictionaries({'cfgs': st.lists(configs.config_s(), min_size=2, max_size=3), 'seed': gen.seed_s,
                                  'actions': st.lists(st.integers(0, 7), min_size=3, max_size=20), 'corrupt_last': st.booleans(),
                                  'stamp': st.sampled_from(['natural', 'natural', 'preserved', 'older'])})


def restamp(path, how, k):
    """what a file's modification time says is not part of the property: files replaced by `cp -p`, `rsync -t`, an archive
    extraction or a checkout keep or even lower their timestamp"""
    if how == 'preserved':
        os.utime(path, (1_600_000_000, 1_600_000_000))
    elif how == 'older':
        os.utime(path, (1_600_000_000 - 1000 * k, 1_600_000_000 - 1000 * k))


def oracle_file(case, ctx):
    import tempfile
    import yaml
    ops = [['reset']] + [['step', a] for a in case['actions']] + [['obs']]
    with tempfile.TemporaryDirectory(prefix='vgv_c17_') as d:
        path = os.path.join(d, 'config.yaml')          # one path, rewritten: every build must reflect the file as it is now
        for k, cfg in enumerate(case['cfgs']):
            data = configs.data_of(cfg)
            with open(path, 'w') as f:
                yaml.safe_dump(data, f)
            restamp(path, case.get('stamp', 'natural'), k)
            env = guarded(ctx, f'factory_env_from_yaml (file holding {cfg["base"]} {cfg["mods"]})', factory_env_from_yaml, path)
            ref = factory_env_from_data(copy.deepcopy(data))
            env.set_seed(case['seed'])
            ref.set_seed(case['seed'])
            t1, t2 = trace.run_ops(env, ops), trace.run_ops(ref, ops)
            if trace.first_difference(t1, t2) is not None:
                ctx.fail(f'the environment built from the file does not behave like the configuration the file holds now ({cfg["base"]} {cfg["mods"]}; rewrite number {k} of the same path)',
                         {'kind': 'yaml_file'})
        if case['corrupt_last']:
            data = configs.data_of(case['cfgs'][0])
            data['reset_function']['name'] = 'no_such_reset'
            with open(path, 'w') as f:
                yaml.safe_dump(data, f)
            restamp(path, case.get('stamp', 'natural'), len(case['cfgs']))
            try:
                factory_env_from_yaml(path)
            except (SchemaError, ValueError):
                pass
            except Exception as e:  # noqa: BLE001
                ctx.fail(f'a file naming an unknown reset function raised {type(e).__name__}', {'kind': 'yaml_file'})
            else:
                ctx.fail('a file naming an unknown reset function was built (stale content of the same path?)', {'kind': 'yaml_file'})
    ctx.ev.case(case, nt=True, classes=['rewritten_path', 'mtime:' + case.get('stamp', 'natural')] + (['corrupted_rewrite'] if case['corrupt_last'] else []))


# ------------------------------------------------------------------ (5) factory(name, **kw) == registry[name](..., **accepted kw)

FACTORIES = {
    'reward': (reward_fs.factory, reward_fs.reward_function_registry),
    'terminating': (term_fs.factory, term_fs.terminating_function_registry),
    'transition': (trans_fs.factory, trans_fs.transition_function_registry),
    'observation': (obs_fs.factory, obs_fs.observation_function_registry),
    'visibility': (vis_fs.factory, vis_fs.visibility_function_registry),
    'reset': (reset_fs.factory, reset_fs.reset_function_registry),
}
BUILTIN_NAMES = {
    'reward': ['reduce', 'reduce_sum', 'overlap', 'living_reward', 'reach_exit', 'bump_moving_obstacle', 'proportional_to_distance', 'getting_closer',
               'getting_closer_shortest_path', 'bump_into_wall', 'actuate_door', 'pickndrop', 'reach_exit_memory'],
    'terminating': ['reduce', 'reduce_any', 'reduce_all', 'overlap', 'reach_exit', 'bump_moving_obstacle', 'bump_into_wall'],
    'transition': ['chain', 'move_agent', 'turn_agent', 'pickndrop', 'move_obstacles', 'actuate_door', 'actuate_box', 'teleport'],
    'observation': ['from_visibility', 'fully_transparent', 'partially_occluded', 'raytracing', 'stochastic_raytracing'],
    'visibility': ['fully_transparent', 'partially_occluded', 'raytracing', 'stochastic_raytracing'],
    'reset': ['empty', 'rooms', 'dynamic_obstacles', 'keydoor', 'crossing', 'teleport', 'memory', 'memory_rooms'],
}
falsy_fin = st.sampled_from([0.0, 0.0, -0.0]) | gen.fin


@st.composite
def strat_factory(draw, tier):
    kind = draw(st.sampled_from(['reward', 'reward', 'terminating', 'transition', 'observation', 'visibility', 'reset']))
    space = {'types': list(gen.GRID_TYPES), 'colors': list(objs.COLORS)}
    sd = draw(gen.state_s(space, min_hw=3, max_hw=5, valid=True, unique=('Exit', 'Beacon')))
    kw = {}
    if kind == 'reward':
        spec = draw(gen.reward_spec_s(space, ('Exit', 'Beacon'), allow_memory=True))
        name = spec.pop('name')
        kw = spec
        for k in list(kw):
            if isinstance(kw[k], float) and draw(st.integers(0, 2)) == 0:
                kw[k] = draw(falsy_fin)
        for k in [p for p in inspect.signature(reward_fs.reward_function_registry[name]).parameters if p.startswith('reward')]:
            if k not in kw and draw(st.integers(0, 2)) == 0:
                kw[k] = draw(falsy_fin)
        if draw(st.integers(0, 5)) == 0:
            # the composite rewards, obtained by name like any other component
            parts = draw(st.lists(gen.reward_spec_s(space, ('Exit', 'Beacon'), allow_memory=True), min_size=1, max_size=3))
            name = draw(st.sampled_from(['reduce_sum', 'reduce']))
            kw = {'reward_functions': parts}
            if name == 'reduce':
                kw['reduction'] = draw(st.sampled_from(['sum', 'max', 'min']))
    elif kind == 'terminating':
        spec = draw(gen.term_spec_s(space, depth=1))
        name = spec.pop('name')
        kw = spec
        if name in ('reduce_any', 'reduce_all') and draw(st.booleans()):
            name, kw = 'reduce', dict(kw, reduction=draw(st.sampled_from(['any', 'all'])))
    elif kind == 'transition':
        name = draw(st.sampled_from(list(M.TRANSITIONS) + ['chain']))
        if name == 'chain':
            kw = {'transition_functions': [{'name': n} for n in draw(gen.chain_s())]}
    elif kind == 'observation':
        name = draw(st.sampled_from(['fully_transparent', 'partially_occluded', 'raytracing', 'stochastic_raytracing', 'from_visibility']))
        kw = {'area': draw(gen.area_s(3, ymax_zero=True))}
        if name == 'from_visibility':
            kw['visibility_function'] = {'name': draw(st.sampled_from(['fully_transparent', 'partially_occluded', 'raytracing', 'stochastic_raytracing']))}
    elif kind == 'visibility':
        name = draw(st.sampled_from(['fully_transparent', 'partially_occluded', 'raytracing', 'stochastic_raytracing']))
        if name == 'raytracing' and draw(st.booleans()):
            kw = {'absolute_counts': draw(st.booleans()), 'threshold': draw(st.sampled_from([0, 1, 2, 0.0, 0.5, 1.0]))}
    else:
        name = draw(st.sampled_from(['empty', 'dynamic_obstacles', 'keydoor', 'teleport', 'crossing', 'rooms', 'memory', 'memory_rooms']))
        kw = draw(configs.reset_mod_s(name))
        if name == 'crossing':
            kw['object_type'] = 'Wall'
    extra = draw(st.dictionaries(st.sampled_from(['random_agent', 'bogus', 'reward', 'shape_', 'object_types', 'threshold_']), st.sampled_from([0, 1.5, True, False, 'x']), max_size=2))
    # the order in which a caller (or a YAML mapping) lists the parameters is arbitrary: accepted and unaccepted ones interleaved
    order = draw(st.permutations(sorted(set(kw) | set(extra))))
    return {'kind': kind, 'name': name, 'kw': kw, 'extra': extra, 'order': list(order), 'state': sd, 'action': draw(gen.action_s), 'seed': draw(gen.seed_s)}


def _real_kw(kw):
    out = envs._convert_params(kw)
    if 'reduction' in out:
        out['reduction'] = {'sum': sum, 'max': max, 'min': min, 'any': any, 'all': all}[out['reduction']]
    return out


def oracle_factory(case, ctx):
    kind, name = case['kind'], case['name']
    factory, registry = FACTORIES[kind]
    missing = [n for n in registry if n not in BUILTIN_NAMES[kind] and registry[n].__module__.startswith('gym_gridverse')]
    if missing:
        ctx.ev.count('unlisted_builtin:' + ','.join(missing))
    f = registry[name]
    accepted = set(inspect.signature(f).parameters)
    kw = _real_kw(case['kw'])
    extra = {k: v for k, v in case['extra'].items() if k not in accepted}
    merged = {**extra, **kw}
    order = [k for k in case.get('order', []) if k in merged] + [k for k in merged if k not in case.get('order', [])]
    given = {k: merged[k] for k in order}
    made = guarded(ctx, f'{kind} factory({name}, parameters in the order {order}; unaccepted {sorted(extra)})', factory, name, **given)
    sd, a = case['state'], objs.action(case['action'])
    s = objs.build_state(sd)
    from gym_gridverse.envs.transition_functions import transition_with_copy
    ns = transition_with_copy(envs.mk_transition(['move_agent', 'turn_agent', 'actuate_door', 'pickndrop']), s, a)

    def both(call):
        return call(made), call(functools.partial(f, **kw))

    if kind in ('reward', 'terminating'):
        x, y = both(lambda g: g(s, a, ns))
    elif kind == 'transition':
        x, y = both(lambda g: objs.canon_state(transition_with_copy(g, s, a, rng=make_rng(case['seed']))))
    elif kind == 'observation':
        x, y = both(lambda g: objs.canon_state(g(s, rng=make_rng(case['seed']))))
    elif kind == 'visibility':
        from gym_gridverse.geometry import Position
        h, w = M.shape(sd)
        x, y = both(lambda g: g(s.grid, Position(h - 1, w // 2), rng=make_rng(case['seed'])).tolist())
    else:
        x, y = both(lambda g: objs.canon_state(g(rng=make_rng(case['seed']))))
    if x != y:
        ctx.fail(f'{kind} factory("{name}", **{case["kw"]}) behaves differently from the underlying function called with those parameters: {str(x)[:120]} vs {str(y)[:120]}',
                 {'kind': 'factory', 'component': kind})
    # required parameters: leaving one out must be a ValueError
    required = [p.name for p in inspect.signature(f).parameters.values()
                if p.default is inspect.Parameter.empty and p.name not in ('state', 'action', 'next_state', 'rng', 'grid', 'position')]
    for r in required:
        less = {k: v for k, v in kw.items() if k != r}
        try:
            factory(name, **less)
        except ValueError:
            pass
        except Exception as e:  # noqa: BLE001
            ctx.fail(f'{kind} factory("{name}") without required "{r}" raised {type(e).__name__}, not ValueError', {'kind': 'factory_reject'})
        else:
            ctx.fail(f'{kind} factory("{name}") accepted a call without the required parameter "{r}"', {'kind': 'factory_reject'})
    try:
        factory(name + '_nope', **kw)
    except ValueError:
        pass
    except Exception as e:  # noqa: BLE001
        ctx.fail(f'{kind} factory with an unknown name raised {type(e).__name__}, not ValueError', {'kind': 'factory_reject'})
    else:
        ctx.fail(f'{kind} factory accepted the unknown name "{name}_nope"', {'kind': 'factory_reject'})
    falsy = any(isinstance(v, (int, float)) and not isinstance(v, bool) and v == 0 for v in case['kw'].values()) or any(v is False for v in case['kw'].values())
    sig_order = [k for k in inspect.signature(f).parameters if k in kw]
    shuffled = [k for k in order if k in kw] != sig_order or (bool(extra) and order and order[0] in extra)
    ctx.ev.case(case, nt=bool(extra) or falsy, classes=['kind:' + kind, f'name:{kind}:{name}'] + (['unaccepted_param'] if extra else []) + (['falsy_param'] if falsy else [])
                + (['parameters_out_of_signature_order'] if shuffled else []))


# ------------------------------------------------------------------ (6) corruptions are rejected


def corruptions(data):
    """systematic corruptions of a data tree: (label, corrupted tree)"""
    out = []

    def add(label, fn):
        d = copy.deepcopy(data)
        fn(d)
        out.append((label, d))

    add('reset:unknown_name', lambda d: d['reset_function'].__setitem__('name', 'no_such_reset'))
    add('observation:unknown_name', lambda d: d['observation_function'].__setitem__('name', 'no_such_observation'))
    add('terminating:unknown_name', lambda d: d['terminating_function'].__setitem__('name', 'no_such_termination'))
    for i in range(len(data['transition_functions'])):
        add(f'transition[{i}]:unknown_name', lambda d, i=i: d['transition_functions'][i].__setitem__('name', 'no_such_transition'))
    for i in range(len(data['reward_functions'])):
        add(f'reward[{i}]:unknown_name', lambda d, i=i: d['reward_functions'][i].__setitem__('name', 'no_such_reward'))
    for i, t in enumerate(data['terminating_function'].get('terminating_functions', [])):
        add(f'terminating.nested[{i}]:unknown_name', lambda d, i=i: d['terminating_function']['terminating_functions'][i].__setitem__('name', 'nope'))
    # required parameters (those the underlying function has no default for)
    def required(registry, entry):
        name = entry['name'].split(':')[-1]
        if name not in registry:
            return []
        return [p.name for p in inspect.signature(registry[name]).parameters.values()
                if p.default is inspect.Parameter.empty and p.name in entry]
    for r in required(reset_fs.reset_function_registry, data['reset_function']):
        add(f'reset:missing:{r}', lambda d, r=r: d['reset_function'].pop(r))
    for r in required(obs_fs.observation_function_registry, data['observation_function']):
        add(f'observation:missing:{r}', lambda d, r=r: d['observation_function'].pop(r))
    for i, e in enumerate(data['reward_functions']):
        for r in required(reward_fs.reward_function_registry, e):
            add(f'reward[{i}]:missing:{r}', lambda d, i=i, r=r: d['reward_functions'][i].pop(r))
    for r in required(term_fs.terminating_function_registry, data['terminating_function']):
        add(f'terminating:missing:{r}', lambda d, r=r: d['terminating_function'].pop(r))
    # whole sections
    for k in ('state_space', 'observation_space', 'reset_function', 'transition_functions', 'reward_functions', 'observation_function', 'terminating_function'):
        add(f'missing_section:{k}', lambda d, k=k: d.pop(k))
    add('empty_transitions', lambda d: d.__setitem__('transition_functions', []))
    add('empty_rewards', lambda d: d.__setitem__('reward_functions', []))
    # shapes
    if 'shape' in data['reset_function']:
        for label, v in (('len1', [7]), ('len3', [7, 7, 7]), ('float', [7.5, 7]), ('zero', [0, 7]), ('negative', [7, -7]), ('string', ['7', '7']), ('scalar', 7)):
            add(f'shape:{label}', lambda d, v=v: d['reset_function'].__setitem__('shape', v))
    if 'layout' in data['reset_function']:
        for label, v in (('len1', [2]), ('zero', [0, 2]), ('float', [2.0, 2])):
            add(f'layout:{label}', lambda d, v=v: d['reset_function'].__setitem__('layout', v))
    # colours
    for sp in ('state_space', 'observation_space'):
        add(f'{sp}:unknown_colour', lambda d, sp=sp: d[sp]['colors'].append('PURPLE'))
        add(f'{sp}:duplicate_colour', lambda d, sp=sp: d[sp]['colors'].append(d[sp]['colors'][0]))
        add(f'{sp}:empty_colours', lambda d, sp=sp: d[sp].__setitem__('colors', []))
        add(f'{sp}:unknown_object', lambda d, sp=sp: d[sp]['objects'].append('Lava'))
        add(f'{sp}:duplicate_object', lambda d, sp=sp: d[sp]['objects'].append(d[sp]['objects'][0]))
        add(f'{sp}:empty_objects', lambda d, sp=sp: d[sp].__setitem__('objects', []))
    if 'colors' in data['reset_function']:
        add('reset:unknown_colour', lambda d: d['reset_function']['colors'].append('PURPLE'))
        add('reset:duplicate_colour', lambda d: d['reset_function']['colors'].append(d['reset_function']['colors'][0]))
    # actions
    add('actions:unknown', lambda d: d.__setitem__('action_space', ['MOVE_FORWARD', 'JUMP']))
    add('actions:duplicate', lambda d: d.__setitem__('action_space', ['MOVE_FORWARD', 'MOVE_FORWARD']))
    add('actions:empty', lambda d: d.__setitem__('action_space', []))
    # object_type parameters
    for i, e in enumerate(data['reward_functions']):
        if 'object_type' in e:
            add(f'reward[{i}]:unknown_object_type', lambda d, i=i: d['reward_functions'][i].__setitem__('object_type', 'Lava'))
    if 'object_type' in data['reset_function']:
        add('reset:unknown_object_type', lambda d: d['reset_function'].__setitem__('object_type', 'Lava'))
    if 'distance_function' in str(data['reward_functions']):
        for i, e in enumerate(data['reward_functions']):
            if 'distance_function' in e:
                add(f'reward[{i}]:unknown_distance', lambda d, i=i: d['reward_functions'][i].__setitem__('distance_function', 'chebyshev'))
    return out


def enum_corrupt(tier, shard, nshards):
    i = 0
    for n in envs.shipped_names():
        for label, _ in corruptions(envs.shipped_data(n)):
            i += 1
            if i % nshards == shard:
                yield {'base': n, 'label': label}


def oracle_corrupt(case, ctx):
    d = dict(corruptions(envs.shipped_data(case['base'])))[case['label']]
    try:
        env = factory_env_from_data(d)
    except (SchemaError, ValueError):
        ctx.ev.case(case, nt=True, classes=['corruption:' + case['label'].split(':')[-1].split('[')[0]])
        return
    except Exception as e:  # noqa: BLE001
        ctx.fail(f'{case["base"]} corrupted by {case["label"]}: raised {type(e).__name__} ("{str(e)[:100]}") instead of a schema or value error', {'kind': 'corruption_exception', 'label': case['label'].split('[')[0]})
        ctx.ev.case(case, nt=False, classes=['known'])
        return
    ctx.fail(f'{case["base"]} corrupted by {case["label"]} was accepted and built an environment', {'kind': 'corruption_accepted', 'label': case['label'].split('[')[0]})


# ------------------------------------------------------------------ (5b) a registered name that is bound again (notebook reload, plug-in update)

_REBOUND = [0]


def enum_rebound(tier, shard, nshards):
    for i, kind in enumerate(['reward', 'terminating', 'transition', 'reset']):
        for j, second_first in enumerate((False, True)):
            if (2 * i + j) % nshards == shard:
                yield {'kind': kind, 'second_first': second_first}


def oracle_rebound(case, ctx):
    """a user-defined component is registered, obtained by name, then the name is deleted and registered again for a function with other
    parameter names and another required parameter: what the factory hands out must be the function the name denotes *now*"""
    kind = case['kind']
    factory, registry = FACTORIES[kind]
    _REBOUND[0] += 1
    name = f'verif_component_{kind}_{_REBOUND[0]}'
    from gym_gridverse.geometry import Shape
    from gym_gridverse.grid import Grid
    from gym_gridverse.agent import Agent
    from gym_gridverse.geometry import Orientation, Position
    from gym_gridverse.state import State

    if kind == 'reward':
        def one(state, action, next_state, *, bonus: float, scale: float = 1.0, rng=None):
            return bonus * scale

        def two(state, action, next_state, *, penalty: float, offset: float, rng=None):
            return -penalty + offset
        call = lambda f: f(None, None, None)  # noqa: E731
    elif kind == 'terminating':
        def one(state, action, next_state, *, flag: bool, rng=None):
            return bool(flag)

        def two(state, action, next_state, *, threshold: int, value: int = 3, rng=None):
            return value >= threshold
        call = lambda f: f(None, None, None)  # noqa: E731
    elif kind == 'transition':
        def one(state, action, *, steps: int, rng=None):
            state.agent.position = Position(state.agent.position.y, state.agent.position.x + steps)

        def two(state, action, *, rows: int, cols: int = 0, rng=None):
            state.agent.position = Position(state.agent.position.y + rows, state.agent.position.x + cols)

        def call(f):
            s = State(Grid.from_shape((3, 9)), Agent(Position(0, 0), Orientation.F, None))
            f(s, None)
            return (s.agent.position.y, s.agent.position.x)
    else:
        def one(*, width: int, rng=None):
            return State(Grid.from_shape((2, width)), Agent(Position(0, 0), Orientation.F, None))

        def two(*, height: int, depth: int = 2, rng=None):
            return State(Grid.from_shape((height, depth)), Agent(Position(0, 0), Orientation.R, None))
        call = lambda f: objs.canon_state(f())  # noqa: E731
    params = {'reward': ({'bonus': 2.0, 'scale': 1.5}, {'penalty': 1.0, 'offset': 4.0}), 'terminating': ({'flag': True}, {'threshold': 5}),
              'transition': ({'steps': 2}, {'rows': 1, 'cols': 3}), 'reset': ({'width': 4}, {'height': 3})}[kind]
    fns = [(one, params[0]), (two, params[1])]
    if case['second_first']:
        fns.reverse()
    try:
        for k, (fn, kw) in enumerate(fns):
            if name in registry:
                del registry[name]
            registry.register(fn, name=name)
            made = guarded(ctx, f'{kind} factory for a user component (binding number {k + 1} of the name)', factory, name, **kw)
            got, exp = call(made), call(functools.partial(fn, **kw))
            if got != exp:
                ctx.fail(f'{kind} factory("{name}", **{kw}) after the name was bound {"again" if k else "first"}: behaves like {got}, the function registered under the name gives {exp}',
                         {'kind': 'factory', 'component': kind, 'aspect': 'rebound'})
            required = [p.name for p in inspect.signature(fn).parameters.values() if p.default is inspect.Parameter.empty and p.name not in ('state', 'action', 'next_state')]
            for r in required:
                try:
                    factory(name, **{a: b for a, b in kw.items() if a != r})
                except ValueError:
                    pass
                except Exception as e:  # noqa: BLE001
                    ctx.fail(f'{kind} factory("{name}") without required "{r}" raised {type(e).__name__}, not ValueError', {'kind': 'factory_reject', 'aspect': 'rebound'})
                else:
                    ctx.fail(f'{kind} factory("{name}") accepted a call without the parameter "{r}" that the function bound to the name now requires', {'kind': 'factory_reject', 'aspect': 'rebound'})
    finally:
        if name in registry:
            del registry[name]
    ctx.ev.case(case, nt=True, classes=['rebound:' + kind])


CHECKS = [
    Check('packaged_and_registry', oracle_files, enumerate=enum_files, shards={'quick': 4, 'thorough': 4}, exhaustive=True,
          rule='every registered gym id: packaged copy byte-identical to yaml/, registry entry points to the packaged file of its name, file validates and builds'),
    Check('differential_shipped', oracle_diff, enumerate=enum_shipped, shards={'quick': 8, 'thorough': 16},
          rule='22 shipped files x 2 (6) seeds x 45 actions: built environment == hand-assembled environment (canonical trajectories, spaces, action list); input unchanged; second build identical'),
    Check('differential_perturbed', oracle_diff, strategy=strat_diff, examples={'quick': 100, 'thorough': 300}, shards={'quick': 8, 'thorough': 16},
          rule='valid perturbations (non-square shapes, other counts, colour subsets, re-ordered action sub-lists, extra/reversed transitions, other observation functions/areas, scaled rewards) x seeds x generated action lists',
          required=['perturbed', 'mod:reset', 'mod:actions', 'mod:reverse_transitions', 'mod:vis']),
    Check('yaml_files', oracle_file, strategy=strat_file, examples={'quick': 20, 'thorough': 60}, shards={'quick': 4, 'thorough': 16},
          rule='2-3 (perturbed) configurations written one after the other to the same path (modification time natural, preserved or lowered) and built with factory_env_from_yaml: each build behaves like the data the file holds now; a corrupted rewrite is rejected',
          required=['rewritten_path', 'corrupted_rewrite', 'mtime:preserved', 'mtime:older']),
    Check('component_factories', oracle_factory, strategy=strat_factory, examples={'quick': 400, 'thorough': 1200}, shards={'quick': 4, 'thorough': 16},
          rule='factory(name, **kw) for all six component kinds with accepted, unaccepted and falsy-valued parameters listed in an arbitrary order == underlying function with the accepted parameters; missing required / unknown name -> ValueError',
          required=['unaccepted_param', 'falsy_param', 'parameters_out_of_signature_order'] + [f'name:{k}:{n}' for k, (_, reg) in FACTORIES.items() for n in BUILTIN_NAMES[k]]),
    Check('corruptions', oracle_corrupt, enumerate=enum_corrupt, shards={'quick': 8, 'thorough': 16}, exhaustive=True,
          rule='every shipped file x every systematic corruption (unknown component names at every position, each required parameter deleted, missing sections, malformed shapes/layouts, unknown/duplicate/empty colours, objects and actions, unknown object types and distance functions): SchemaError or ValueError'),
    Check('rebound_names', oracle_rebound, enumerate=enum_rebound, shards={'quick': 2, 'thorough': 2}, exhaustive=True,
          rule='reward, terminating, transition and reset registries: a user component registered under a name, obtained through the factory, the name deleted and registered again for a function with other parameters (both orders): behaves like the function the name denotes now; its required parameters are enforced',
          required=['rebound:reward', 'rebound:reset']),
]
