"""C04 -- the stateful interface mirrors the functional one; observations are never stale."""
import numpy as np
from hypothesis import strategies as st
from hypothesis.stateful import initialize, precondition, rule

from vgv import configs, objs
from vgv.framework import Check, make_machine_base, replay_log

from gym_gridverse.outer_env import OuterEnv
from gym_gridverse.representations.observation_representations import make_observation_representation
from gym_gridverse.representations.state_representations import make_state_representation

RULE = ('non-trivial history = an observation read both before and after a state-changing step, or a reset in mid-episode, '
        'or repeated reads under a stochastic observation function; distinct by op log.')
ASSUMPTIONS = ['the shadow computes functional_observation once per state, at the first read (the documented memoisation), so both generators are consumed identically',
               'perturbed shipped configurations biased towards stochastic_raytracing / move_obstacles / random resets']


class Driver:
    def __init__(self, ctx, cfg, seed):
        self.ctx = ctx
        self.cfg = cfg
        self.E = configs.build(cfg, seed)
        self.T = configs.build(cfg, seed)
        self.stochastic_obs = configs.data_of(cfg)['observation_function']['name'] == 'stochastic_raytracing'
        try:
            srep = make_state_representation('default', self.E.state_space)
            self.srep_T = make_state_representation('default', self.T.state_space)
        except ValueError:  # state space with objects that cannot be represented (documented)
            srep = self.srep_T = None
        self.outer = OuterEnv(self.E, state_representation=srep,
                              observation_representation=make_observation_representation('default', self.E.observation_space))
        self.orep_T = make_observation_representation('default', self.T.observation_space)
        self.sh_state = None
        self.sh_obs = None
        self.last_obs_obj = None
        self.started = False
        # evidence
        self.reads_this_state = 0
        self.read_before_step = False
        self.read_after_change = False
        self.changed_since_read = False
        self.mid_resets = 0
        self.repeated_stochastic = 0
        self.steps_since_reset = 0
        self.nops = 0
        self.check_guard()

    def fail(self, msg, kind):
        self.ctx.fail(f'{self.cfg["base"]} {self.cfg["mods"]}: {msg}', {'kind': kind})

    def check_guard(self):
        for what, f in (('state', lambda: self.E.state), ('observation', lambda: self.E.observation), ('outer observation', lambda: self.outer.observation)):
            try:
                f()
            except RuntimeError:
                continue
            except Exception as e:  # noqa: BLE001
                self.fail(f'reading {what} before the first reset raised {type(e).__name__}, not RuntimeError', 'guard')
            else:
                self.fail(f'reading {what} before the first reset did not raise', 'guard')

    def invariant(self):
        if not self.started:
            return
        got = objs.canon_state(self.E.state)
        if got != objs.canon_state(self.sh_state):
            self.fail(f'state diverged from the functionally threaded trajectory after {self.nops} ops: agent {got["agent"]} vs {objs.canon_state(self.sh_state)["agent"]}', 'diverged')

    def op_reset(self):
        self.nops += 1
        self.E.reset()
        self.sh_state = self.T.functional_reset()
        self.sh_obs = None
        self.last_obs_obj = None
        if self.started and self.steps_since_reset > 0:
            self.mid_resets += 1
        self.started = True
        self.steps_since_reset = 0
        self.reads_this_state = 0
        self.changed_since_read = True
        self.invariant()

    def op_reseed(self, seed):
        """the instance under test is given a seed again; the shadow is a *fresh* environment with that seed"""
        self.nops += 1
        self.E.set_seed(seed)
        self.T = configs.build(self.cfg, seed)
        self.reseeds = getattr(self, 'reseeds', 0) + 1
        self.op_reset()

    def op_step(self, i):
        self.nops += 1
        a = self.E.action_space.int_to_action(i % self.E.action_space.num_actions)
        before = objs.canon_state(self.sh_state)
        r, t = self.E.step(a)
        ns, r2, t2 = self.T.functional_step(self.sh_state, a)
        if float(r) != float(r2) or bool(t) != bool(t2):
            self.fail(f'step({a.name}) returned (reward {r}, done {t}) but the functional interface gives ({r2}, {t2})', 'step_result')
        self.sh_state = ns
        self.sh_obs = None
        self.last_obs_obj = None
        if self.reads_this_state:
            self.read_before_step = True
        self.reads_this_state = 0
        self.steps_since_reset += 1
        if objs.canon_state(ns) != before:
            self.changed_since_read = True
        self.invariant()

    def op_bad_step(self, i):
        """an action outside the (restricted) action space: rejected with ValueError by both interfaces, nothing changes -- the
        state keeps its memoised observation, so no randomness is consumed"""
        self.nops += 1
        from gym_gridverse.action import Action
        outside = [a for a in Action if not self.E.action_space.contains(a)]
        if not outside:
            return
        a = outside[i % len(outside)]
        for what, f in (('step', lambda: self.E.step(a)), ('functional_step', lambda: self.T.functional_step(self.sh_state, a))):
            try:
                f()
            except ValueError:
                pass
            except Exception as e:  # noqa: BLE001
                self.fail(f'{what}({a.name}) outside the action space raised {type(e).__name__}, not ValueError', 'reject')
            else:
                self.fail(f'{what} accepted {a.name}, which is outside the action space', 'reject')
        if self.reads_this_state:
            self.rejected_between_reads = True
        self.invariant()

    def _shadow_obs(self):
        if self.sh_obs is None:
            self.sh_obs = self.T.functional_observation(self.sh_state)
        return self.sh_obs

    def op_obs(self, n):
        self.nops += 1
        for k in range(n):
            o = self.E.observation
            exp = self._shadow_obs()
            if objs.canon_state(o) != objs.canon_state(exp):
                od, ed = objs.canon_state(o), objs.canon_state(exp)
                diff = [((i, j), od['grid'][i][j], ed['grid'][i][j]) for i in range(len(ed['grid'])) for j in range(len(ed['grid'][0]))
                        if len(od['grid']) == len(ed['grid']) and od['grid'][i][j] != ed['grid'][i][j]]
                self.fail(f'observation does not belong to the current state (read {k + 1} of {n}, after {self.nops} ops): differing cells (cell, got, expected) {diff[:4]}, '
                          f'agents {od["agent"]} vs {ed["agent"]}', 'stale_observation')
            # (object identity of repeated reads is not demanded: a recomputation is observable through the twin's generator
            #  under a stochastic observation function, which is how "at most once per state" is decided)
            self.last_obs_obj = o
            if self.reads_this_state and self.stochastic_obs:
                self.repeated_stochastic += 1
            self.reads_this_state += 1
        if self.changed_since_read and self.read_before_step:
            self.read_after_change = True
        self.changed_since_read = False
        self.invariant()

    def op_state(self):
        self.nops += 1
        a, b = self.E.state, self.E.state
        if objs.canon_state(a) != objs.canon_state(b):
            self.fail('two reads of the state differ', 'state_read')
        self.invariant()

    def op_outer_state(self):
        self.nops += 1
        if self.srep_T is None:
            return
        for _ in range(2):
            got = self.outer.state
            exp = self.srep_T.convert(self.sh_state)
            self._cmp(got, exp, 'outer state')
            for v in got.values():
                v.fill(-7)  # what the caller does with the returned arrays must not leak into later reads
        self.invariant()

    def op_outer_obs(self):
        self.nops += 1
        for _ in range(2):
            got = self.outer.observation
            exp = self.orep_T.convert(self._shadow_obs())
            self._cmp(got, exp, 'outer observation')
            for v in got.values():
                v.fill(-7)
        self.reads_this_state += 1
        self.invariant()

    def op_swap_rep(self, name):
        """the outer environment's representations are public attributes: after replacing one, reads use the new one"""
        self.nops += 1
        self.outer.observation_representation = make_observation_representation(name, self.E.observation_space)
        self.orep_T = make_observation_representation(name, self.T.observation_space)
        if self.srep_T is not None:
            self.outer.state_representation = make_state_representation(name, self.E.state_space)
            self.srep_T = make_state_representation(name, self.T.state_space)
        self.swaps = getattr(self, 'swaps', 0) + 1
        if self.started:
            self.op_outer_obs()
            self.op_outer_state()

    def _cmp(self, got, exp, what):
        if sorted(got) != sorted(exp):
            self.fail(f'{what}: keys {sorted(got)} != {sorted(exp)}', 'outer')
        for k in exp:
            if not np.array_equal(got[k], exp[k]) or got[k].dtype != exp[k].dtype:
                self.fail(f'{what}[{k}] is not the representation of the inner {what.split()[1]}', 'outer')

    def finish(self):
        cl = ['cfg:' + self.cfg['base'].replace('.yaml', '')]
        if self.read_after_change:
            cl.append('read_before_and_after_change')
        if self.mid_resets:
            cl.append('mid_episode_reset')
        if self.repeated_stochastic:
            cl.append('repeated_reads_stochastic')
        if self.stochastic_obs:
            cl.append('stochastic_obs')
        if getattr(self, 'swaps', 0):
            cl.append('representation_swapped')
        if getattr(self, 'reseeds', 0):
            cl.append('reseeded')
        if getattr(self, 'rejected_between_reads', False):
            cl.append('rejected_step_after_read' + ('_stochastic' if self.stochastic_obs else ''))
        self.ctx.ev.case(None, nt=(len(cl) > 1 + self.stochastic_obs) or self.repeated_stochastic > 0, classes=cl,
                         key=getattr(self, 'log', None) or [self.cfg, self.nops],
                         sample={'op_log (first 40)': getattr(self, 'log', [])[:40], 'cfg': self.cfg, 'ops': self.nops, 'mid_resets': self.mid_resets, 'repeated_stochastic_reads': self.repeated_stochastic})


def machine(tier, ctx, last):
    Base = make_machine_base()
    started = precondition(lambda self: self.driver is not None and self.driver.started)
    built = precondition(lambda self: self.driver is not None)

    class C04Machine(Base):
        DRIVER = Driver
        CTX = ctx
        LAST = last

        @initialize(cfg=configs.config_s(stochastic_bias=True), seed=st.integers(0, 2**32 - 1))
        def init(self, cfg, seed):
            self.start(cfg, seed)

        @built
        @rule()
        def reset(self):
            self.op('reset')

        @started
        @rule(i=st.integers(0, 7))
        def step(self, i):
            self.op('step', i)

        @started
        @rule(n=st.integers(1, 3))
        def obs(self, n):
            self.op('obs', n)

        @started
        @rule()
        def state(self):
            self.op('state')

        @started
        @rule()
        def outer_state(self):
            self.op('outer_state')

        @started
        @rule()
        def outer_obs(self):
            self.op('outer_obs')

        @started
        @rule(i=st.integers(0, 7))
        def bad_step(self, i):
            self.op('bad_step', i)

        @started
        @rule(seed=st.integers(0, 2**32 - 1))
        def reseed(self, seed):
            self.op('reseed', seed)

        @started
        @rule(name=st.sampled_from(['default', 'no-overlap', 'compact']))
        def swap_rep(self, name):
            self.op('swap_rep', name)

    return C04Machine


def oracle(log, ctx):
    replay_log(Driver, log, ctx)


# ------------------------------------------------------------------ a reset function that hands out the same State object every time


@st.composite
def strat_cached(draw, tier):
    from vgv import gen
    space = draw(gen.space_s(must=('Floor', 'Wall')))
    sd = draw(gen.state_s(space, min_hw=3, max_hw=6, valid=True, floor_weight=2))
    comp = {'chain': ['move_agent', 'turn_agent'], 'rewards': [{'name': 'living_reward', 'reward': -1.0}], 'term': {'name': 'reach_exit'},
            'obs': draw(st.sampled_from(['stochastic_raytracing', 'stochastic_raytracing', 'raytracing', 'partially_occluded'])), 'view': [draw(st.sampled_from([5, 7])), draw(st.sampled_from([5, 7]))]}
    ops = draw(st.lists(st.sampled_from(['reset', 'reset', 'obs', 'obs', 'step0', 'step4', 'scribble']), min_size=4, max_size=14))
    return {'space': space, 'state': sd, 'comp': comp, 'seed': draw(st.integers(0, 2**31)), 'ops': ['reset', 'obs', 'reset', 'obs'] + ops, 'respawn': draw(st.booleans())}


def oracle_cached(case, ctx):
    """fixed-start tasks: the reset function returns one State object it keeps (the environment never modifies it: steps work on
    copies).  Such an environment must behave like a twin whose reset function builds a fresh, equal state every time."""
    from vgv import envs, gen, model as M
    from gym_gridverse.action import Action
    from gym_gridverse.envs.gridworld import GridWorld
    space, sd, comp = case['space'], case['state'], case['comp']
    kept = objs.build_state(sd)
    ref = envs.mk_env(space, M.shape(sd), comp, reset_state=sd)
    free = [p for p in M.positions(sd) if not M.blocks_movement(M.cell(sd, p))]
    respawn = bool(case.get('respawn')) and len(free) > 1
    calls = {'kept': 0, 'fresh': 0}

    def reset_kept(*, rng=None):
        # one State object for the whole run; with `respawn` the reset function re-spawns the agent in place (next free cell, next heading)
        if respawn:
            from gym_gridverse.geometry import Position
            k = calls['kept']
            kept.agent.position = Position(*free[k % len(free)])
            kept.agent.orientation = objs.ori(objs.HEADINGS[k % 4])
        calls['kept'] += 1
        return kept

    def reset_fresh(*, rng=None):
        d2 = {'grid': sd['grid'], 'agent': list(sd['agent'])}
        if respawn:
            k = calls['fresh']
            d2['agent'][0], d2['agent'][1], d2['agent'][2] = free[k % len(free)][0], free[k % len(free)][1], objs.HEADINGS[k % 4]
        calls['fresh'] += 1
        return objs.build_state(d2)

    E = GridWorld(ref.state_space, ref.action_space, ref.observation_space, reset_kept, envs.mk_transition(comp['chain']),
                  envs.mk_obs(comp['obs'], gen.view_area(*comp['view'])), envs.mk_rewards(comp['rewards']), envs.mk_term(comp['term']))
    T = GridWorld(ref.state_space, ref.action_space, ref.observation_space, reset_fresh, envs.mk_transition(comp['chain']),
                  envs.mk_obs(comp['obs'], gen.view_area(*comp['view'])), envs.mk_rewards(comp['rewards']), envs.mk_term(comp['term']))
    traces = []
    for env in (E, T):
        env.set_seed(case['seed'])
        tr = []
        started = False
        for op in case['ops']:
            if op == 'reset':
                env.reset()
                started = True
                tr.append(['reset', objs.canon_state(env.state)])
            elif not started:
                continue
            elif op == 'obs':
                tr.append(['obs', objs.canon_state(env.observation)])
            elif op == 'scribble':
                o = env.observation                      # what a consumer does with the observation it was given
                from gym_gridverse.grid_object import Wall
                from gym_gridverse.geometry import Position
                o.grid[Position(0, 0)] = Wall()
            else:
                a = [Action.MOVE_FORWARD, Action.TURN_LEFT, Action.TURN_RIGHT, Action.MOVE_LEFT, Action.MOVE_BACKWARD][int(op[4:])]
                r, t = env.step(a)
                tr.append(['step', float(r), bool(t), objs.canon_state(env.state)])
        traces.append(tr)
    if not respawn and objs.canon_state(kept) != sd:
        ctx.fail('the environment modified the State object its reset function keeps', {'kind': 'cached_reset'})
    if traces[0] != traces[1]:
        k = next(i for i, (x, y) in enumerate(zip(*traces)) if x != y)
        ctx.fail(f'an environment whose reset function returns the same State object every time diverges from a twin whose reset function builds a fresh equal state '
                 f'(observation function {comp["obs"]}; first difference at trace entry {k}: {traces[0][k][0]}; ops {case["ops"][:10]})', {'kind': 'cached_reset'})
    ctx.ev.case(case, nt=True, classes=['obs:' + comp['obs'], 'reset_obs_reset'] + (['respawn_in_place'] if respawn else []))


CHECKS = [
    Check('shadow_machine', oracle, machine=machine, examples={'quick': 120, 'thorough': 400}, steps={'quick': 40, 'thorough': 60},
          shards={'quick': 8, 'thorough': 16},
          rule='rule-based machine (reset, step, rejected step outside a restricted action space, re-seeding, 1-3 observation reads, state read, outer state / observation reads with the returned arrays overwritten, representation swap) on perturbed shipped configurations vs. a functionally driven twin with the same seed',
          required=['read_before_and_after_change', 'mid_episode_reset', 'repeated_reads_stochastic', 'representation_swapped', 'reseeded', 'rejected_step_after_read_stochastic']),
    Check('cached_reset_object', oracle_cached, strategy=strat_cached, examples={'quick': 150, 'thorough': 600}, shards={'quick': 2, 'thorough': 8},
          rule='GridWorld whose reset function returns the same State object every time (unchanged, or with the agent re-spawned in place) x op lists starting reset, read, reset, read (then resets, reads, steps, a consumer writing into the observation it was given): same trace as a twin with a fresh-state reset function and the same seed',
          required=['obs:stochastic_raytracing', 'reset_obs_reset', 'respawn_in_place']),
]
