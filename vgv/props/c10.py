"""C10 -- doors, keys and boxes respond only to a faced ACTUATE, and only as documented."""
import json

from hypothesis import strategies as st

from vgv import envs, gen, model as M, objs
from vgv import prelude
from vgv.framework import Check, guarded
from vgv.objs import ACTIONS, COLORS, HEADINGS, STATUSES

from gym_gridverse.envs.transition_functions import transition_with_copy
from gym_gridverse.rng import make_rng

RULE = ('non-trivial = a door status or box actually changes, or ACTUATE is used facing a locked door with a wrong/no key, '
        'or the door/box is placed somewhere other than in front (left, right, behind, diagonal, two ahead, wrapped beyond the edge).')
ASSUMPTIONS = ['deterministic chains only for the exact tables; stochastic chains are compared with the model outcome set']

FULL = ['move_agent', 'turn_agent', 'actuate_door', 'actuate_box', 'pickndrop']
HELD = ['_'] + [f'K:{c}' for c in COLORS] + ['W', 'B(K:RED)', 'T:RED']
REL = ['front', 'left', 'right', 'behind', 'diag', 'two_ahead', 'front_outside']


def run_chain(chain, sd, a, seed=0):
    fn = envs.mk_transition(chain)
    return objs.canon_state(transition_with_copy(fn, objs.build_state(sd), objs.action(a), rng=make_rng(seed)))


def place(rel, hd, obj):
    """5x5 floor grid, the object placed relative to the agent; returns descriptor"""
    grid = [['F'] * 5 for _ in range(5)]
    f, r = M.FWD[hd], M.RGT[hd]
    if rel == 'front_outside':
        # agent on the edge facing outward; the object sits where a wrapped index would land
        pos = {'F': (0, 2), 'B': (4, 2), 'L': (2, 0), 'R': (2, 4)}[hd]
        tgt = ((pos[0] + f[0]) % 5, (pos[1] + f[1]) % 5)
    else:
        pos = (2, 2)
        off = {'front': (1, 0), 'left': (0, -1), 'right': (0, 1), 'behind': (-1, 0), 'diag': (1, -1), 'two_ahead': (2, 0)}[rel]
        tgt = (pos[0] + off[0] * f[0] + off[1] * r[0], pos[1] + off[0] * f[1] + off[1] * r[1])
    grid[tgt[0]][tgt[1]] = obj
    return {'grid': grid, 'agent': [pos[0], pos[1], hd, '_']}, tgt


def compare(ctx, sd, a, chains, what, sig):
    for chain in chains:
        nd = guarded(ctx, f'{chain}', run_chain, chain, sd, a)
        exp = M.step_det(sd, a, chain)
        if nd != exp:
            cells = [(p, M.cell(sd, p), M.cell(nd, p), M.cell(exp, p)) for p in M.positions(sd) if M.cell(nd, p) != M.cell(exp, p)]
            ctx.fail(f'{what}: {a} with {chain}: agent {nd["agent"]} (model {exp["agent"]}); cells (pos, before, got, model): {cells[:4]}', sig)
    return exp


# ------------------------------------------------------------------ exhaustive door table


def enum_door(tier, shard, nshards):
    i = 0
    for hd in HEADINGS:
        for status in STATUSES:
            for dc in COLORS:
                for held in HELD:
                    for rel in REL:
                        for a in ACTIONS:
                            i += 1
                            if i % nshards == shard:
                                yield {'hd': hd, 'status': status, 'color': dc, 'held': held, 'rel': rel, 'a': a}


def oracle_door(case, ctx):
    door = f'D:{case["status"]}:{case["color"]}'
    sd, tgt = place(case['rel'], case['hd'], door)
    sd['agent'][3] = case['held']
    a = case['a']
    exp = compare(ctx, sd, a, (['actuate_door'], FULL), f'door {door} {case["rel"]} holding {case["held"]} heading {case["hd"]}', {'kind': 'door_table', 'action': a})
    # the documented rule, stated directly (not via the model step)
    nd = run_chain(FULL, sd, a)
    after = M.parse_obj(M.cell(nd, tgt))
    should_open = (a == 'ACTUATE' and case['rel'] == 'front' and (
        case['status'] == 'CLOSED' or (case['status'] == 'LOCKED' and case['held'] == f'K:{case["color"]}')))
    want = 'OPEN' if (should_open or case['status'] == 'OPEN') else case['status']
    if after['type'] != 'Door' or after['status'] != want or after['color'] != case['color']:
        ctx.fail(f'door {door} {case["rel"]} under {a} holding {case["held"]}: became {M.cell(nd, tgt)}, documented {want}', {'kind': 'door_rule', 'action': a})
    if a == 'ACTUATE' and nd['agent'][3] != case['held']:
        ctx.fail(f'ACTUATE changed the held item {case["held"]} -> {nd["agent"][3]} (keys are not consumed)', {'kind': 'key_consumed'})
    changed = after['status'] != case['status']
    wrongkey = a == 'ACTUATE' and case['rel'] == 'front' and case['status'] == 'LOCKED' and not should_open
    ctx.ev.case(case, nt=(changed or wrongkey or (a == 'ACTUATE' and case['rel'] != 'front')),
                classes=['opened' if changed else 'unchanged'] + (['locked_wrong_key'] if wrongkey else []) + ['rel:' + case['rel']])


# ------------------------------------------------------------------ exhaustive box table

CONTENTS = ['F', 'W', 'K:RED', 'E:BLUE', 'D:LOCKED:YELLOW', 'M', 'T:GREEN', 'N:RED', 'B(K:BLUE)', 'B(B(F))']


def enum_box(tier, shard, nshards):
    i = 0
    for hd in HEADINGS:
        for c in CONTENTS:
            for held in ('_', 'K:RED', 'W'):
                for rel in REL:
                    for a in ACTIONS:
                        i += 1
                        if i % nshards == shard:
                            yield {'hd': hd, 'content': c, 'held': held, 'rel': rel, 'a': a}


def oracle_box(case, ctx):
    box = f'B({case["content"]})'
    sd, tgt = place(case['rel'], case['hd'], box)
    sd['agent'][3] = case['held']
    a = case['a']
    compare(ctx, sd, a, (['actuate_box'], FULL), f'box {box} {case["rel"]} heading {case["hd"]}', {'kind': 'box_table', 'action': a})
    nd = run_chain(FULL, sd, a)
    want = case['content'] if (a == 'ACTUATE' and case['rel'] == 'front') else box
    if M.cell(nd, tgt) != want:
        ctx.fail(f'box {box} {case["rel"]} under {a}: became {M.cell(nd, tgt)}, documented {want}', {'kind': 'box_rule', 'action': a})
    if a == 'ACTUATE' and nd['agent'][3] != case['held']:
        ctx.fail('ACTUATE changed the held item', {'kind': 'key_consumed'})
    ctx.ev.case(case, nt=(want != box or (a == 'ACTUATE' and case['rel'] != 'front')), classes=['opened' if want != box else 'unchanged', 'rel:' + case['rel']])


# ------------------------------------------------------------------ generated multi-door / multi-box states


GEN_SCENARIOS = ['random', 'random', 'locked_match', 'locked_nomatch', 'locked_nokey', 'closed', 'open', 'box', 'unfaced']


@st.composite
def strat_gen(draw, tier):
    """scenario-driven: a door of the wanted status (or a box) is built in front of the agent"""
    sc = draw(st.sampled_from(GEN_SCENARIOS))
    space = draw(gen.space_s(must=('Floor', 'Door', 'Box', 'Key')))
    sd = draw(gen.state_s(space, min_hw=2, max_hw=6 if tier == 'quick' else 8, valid=draw(st.booleans()), floor_weight=1))
    chain = draw(gen.chain_s())
    a = draw(st.sampled_from(ACTIONS + ['ACTUATE'] * 3))
    if sc != 'random':
        y, x = sd['agent'][0], sd['agent'][1]
        inward = [h for h in HEADINGS if M.in_grid(sd, (y + M.FWD[h][0], x + M.FWD[h][1]))]
        sd['agent'][2] = draw(st.sampled_from(inward))
        f = M.front(sd)
        col = draw(st.sampled_from(space['colors']))
        others = [c for c in COLORS if c != col]
        if sc == 'box':
            sd = draw(gen.plant_front_s(sd, space, ('Box',)))
            need = 'actuate_box'
        else:
            status = {'locked_match': 'LOCKED', 'locked_nomatch': 'LOCKED', 'locked_nokey': 'LOCKED', 'closed': 'CLOSED', 'open': 'OPEN',
                      'unfaced': draw(st.sampled_from(STATUSES))}[sc]
            sd['grid'][f[0]][f[1]] = f'D:{status}:{col}'
            need = 'actuate_door'
            if sc == 'locked_match':
                sd['agent'][3] = f'K:{col}'
            elif sc == 'locked_nomatch':
                # a key of another colour, or a non-key object of the door's colour
                sd['agent'][3] = draw(st.sampled_from([f'K:{c}' for c in others] + [f'T:{col}', f'N:{col}', f'E:{col}']))
            elif sc == 'locked_nokey':
                sd['agent'][3] = '_'
            else:
                sd['agent'][3] = draw(st.sampled_from(['_', f'K:{col}', f'K:{others[0]}']))
            if sc == 'unfaced':
                # turn away: the door/box is beside or behind the agent
                sd['agent'][2] = M.turn(sd['agent'][2], draw(st.integers(1, 3)))
        a = 'ACTUATE' if draw(st.integers(0, 5)) else draw(gen.action_s)
        if need not in chain:
            chain = chain + [need]
    observe = None
    if draw(st.integers(0, 2)) == 0:
        # the agent looks before it acts (any deterministic occluding function, also with the view covering the grid exactly)
        f = draw(st.sampled_from(['partially_occluded', 'raytracing']))
        area = draw(gen.area_s(3, ymax_zero=True))
        if draw(st.booleans()):
            h, w = M.shape(sd)
            y, x = sd['agent'][0], sd['agent'][1]
            if y == h - 1 or not M.blocks_movement(sd['grid'][h - 1][x]):
                sd['agent'][0], sd['agent'][2] = h - 1, 'F'
                area = [[-(h - 1), 0], [-x, w - 1 - x]]
        observe = {'f': f, 'area': area}
    return {'state': sd, 'action': a, 'chain': chain, 'seed': draw(gen.seed_s), 'observe': observe}


def doors_boxes(d):
    return {p: M.cell(d, p) for p in M.positions(d) if M.obj_type(M.cell(d, p)) in ('Door', 'Box')}


def oracle_gen(case, ctx):
    prelude.door_first(ctx)
    sd, a, chain = case['state'], case['action'], case['chain']
    if case.get('observe'):
        from vgv import obsutil
        S = objs.build_state(sd)
        guarded(ctx, 'observation', obsutil.observe, case['observe']['f'], S, case['observe']['area'])
        now = objs.canon_state(S)
        if doors_boxes(now) != doors_boxes(sd) or now != sd:
            ctx.fail(f'looking at the world ({case["observe"]["f"]}, area {case["observe"]["area"]}) changed the state (doors/boxes {doors_boxes(sd)} -> {doors_boxes(now)}; cells now Hidden: {[p for p in M.positions(now) if M.cell(now, p) == "H"][:6]})',
                     {'kind': 'observed_change'})
        fn = envs.mk_transition(chain)
        nd = objs.canon_state(guarded(ctx, f'{chain}', transition_with_copy, fn, S, objs.action(a), rng=make_rng(case['seed'])))
    else:
        nd = guarded(ctx, f'{chain}', run_chain, chain, sd, a, case['seed'])
    outs = M.step_outcomes(sd, a, chain)
    if outs is not None and json.dumps(nd, sort_keys=True) not in outs:
        ctx.fail(f'{a} with {chain}: next state is not one the reference model allows', {'kind': 'model_mismatch', 'action': a})
    # the stateful route: an environment that starts in this state and is stepped once holds a state the model allows as well (compared
    # deeply: what a box contains is not part of the library's ==)
    if outs is not None:
        space_all = {'types': list(gen.GRID_TYPES), 'colors': list(COLORS)}
        env = envs.mk_env(space_all, M.shape(sd), {'chain': chain, 'rewards': [{'name': 'living_reward', 'reward': -1.0}], 'term': {'name': 'reach_exit'}, 'obs': 'fully_transparent', 'view': [1, 1]},
                          reset_state=sd)
        env.set_seed(case['seed'])
        guarded(ctx, 'reset', env.reset)
        guarded(ctx, f'env.step {a}', env.step, objs.action(a))
        ne = objs.canon_state(env.state)
        if json.dumps(ne, sort_keys=True) not in outs:
            diff = [(p, M.cell(sd, p), M.cell(ne, p)) for p in M.positions(sd) if M.cell(ne, p) != M.cell(nd, p)][:4]
            ctx.fail(f'{a} with {chain}: after env.step the environment holds a state the reference model does not allow (cells where it differs from the functional result: {diff})',
                     {'kind': 'model_mismatch', 'action': a, 'aspect': 'stateful_route'})
    # direct statement: only the faced cell may change, only under ACTUATE (chains without teleport keep "faced" unambiguous)
    changed = []
    if 'teleport' not in chain and 'move_obstacles' not in chain:
        # (with stochastic transitions in the chain the faced cell / revealed content can change again within the same step;
        #  those chains are decided by the outcome-set membership above)
        f = M.front(sd)
        for p, o in doors_boxes(sd).items():
            now = M.cell(nd, p)
            if now == o:
                continue
            changed.append(p)
            if a != 'ACTUATE' or p != f:
                ctx.fail(f'{o} at {p} changed to {now} under {a} although it is not a faced ACTUATE (front={f}, chain {chain})', {'kind': 'unfaced_change', 'action': a})
            t = M.obj_type(o)
            if t == 'Door':
                po, pn = M.parse_obj(o), M.parse_obj(now)
                if pn['type'] != 'Door' or pn['color'] != po['color'] or pn['status'] != 'OPEN':
                    ctx.fail(f'door {o} became {now}', {'kind': 'door_rule', 'action': a})
                if po['status'] == 'LOCKED' and sd['agent'][3] != f'K:{po["color"]}':
                    ctx.fail(f'locked door {o} opened while holding {sd["agent"][3]}', {'kind': 'door_rule', 'action': a})
                if 'actuate_door' not in chain:
                    ctx.fail('door changed without actuate_door in the chain', {'kind': 'door_rule'})
            else:
                content = M.parse_obj(o)['content']
                allowed = {content}
                if 'actuate_door' in chain and 'actuate_box' in chain and chain.index('actuate_door') > chain.index('actuate_box') and M.obj_type(content) == 'Door':
                    # the revealed door is faced and actuated by the later actuate_door of the same step (composition of two documented rules)
                    probe = {'grid': [[content]], 'agent': [1, 0, 'F', sd['agent'][3]]}
                    probe = {'grid': [[content], ['F']], 'agent': [1, 0, 'F', sd['agent'][3]]}
                    allowed.add(M.cell(M.step_det(probe, 'ACTUATE', ['actuate_door']), (0, 0)))
                if now not in allowed:
                    ctx.fail(f'box {o} became {now}', {'kind': 'box_rule', 'action': a})
        if a == 'ACTUATE' and nd['agent'][3] != sd['agent'][3]:
            ctx.fail('ACTUATE changed the held item (keys are not consumed)', {'kind': 'key_consumed'})
    f = M.front(sd)
    fo = M.cell(sd, f) if M.in_grid(sd, f) else None
    cl = []
    if a == 'ACTUATE' and fo is not None and M.obj_type(fo) == 'Door':
        st_ = M.parse_obj(fo)['status']
        cl.append('actuate_door:' + st_ + (':match' if sd['agent'][3] == 'K:' + M.color_of(fo) else ':nomatch'))
        if st_ == 'LOCKED' and sd['agent'][3] != '_' and M.obj_type(sd['agent'][3]) != 'Key' and M.color_of(sd['agent'][3]) == M.color_of(fo):
            cl.append('locked_same_colour_non_key')
    if a == 'ACTUATE' and fo is not None and M.obj_type(fo) == 'Box':
        cl.append('actuate_box')
    if changed:
        cl.append('changed')
    if case.get('observe'):
        cl.append('observed_first')
    ctx.ev.case(case, nt=bool(cl), classes=cl or ['other'], key=[sd, a, chain])


# ------------------------------------------------------------------ key-door histories

KEYDOOR = ['gv_keydoor.5x5.yaml', 'gv_keydoor.7x7.yaml', 'gv_keydoor.9x9.yaml']


def strat_hist(tier):
    n = 60 if tier == 'quick' else 300
    return st.fixed_dictionaries({
        'config': st.sampled_from(KEYDOOR), 'seed': gen.seed_s,
        'guided': st.integers(0, 40),       # length of the model-plan prefix to follow (0 = pure random walk)
        'skip_pick': st.booleans(),         # follow the plan but leave the key on the floor
        'actions': st.lists(st.sampled_from([0, 1, 2, 3, 4, 5, 6, 6, 6, 7]), min_size=1, max_size=n),
    })


def oracle_hist(case, ctx):
    prelude.door_first(ctx)
    env = guarded(ctx, 'build', envs.build_shipped, case['config'], case['seed'])
    guarded(ctx, 'reset', env.reset)
    sd = objs.canon_state(env.state)
    plan = M.plan_keydoor(sd) or []
    prefix = plan[: case['guided']]
    if case['skip_pick']:
        prefix = [a for a in prefix if a != 'PICK_N_DROP']
    names = prefix + [ACTIONS[i] for i in case['actions']]
    opened = 0
    refused = 0
    for i, a in enumerate(names):
        r, t = guarded(ctx, f'step {a}', env.step, objs.action(a))
        nd = objs.canon_state(env.state)
        f = M.front(sd)
        for p, o in doors_boxes(sd).items():
            now = M.cell(nd, p)
            if now != o:
                po = M.parse_obj(o)
                ok = (a == 'ACTUATE' and p == f and M.obj_type(now) == 'Door' and M.parse_obj(now)['status'] == 'OPEN'
                      and (po['status'] != 'LOCKED' or sd['agent'][3] == f'K:{po["color"]}'))
                if not ok:
                    ctx.fail(f'{case["config"]} step {i}: door {o} at {p} became {now} under {a} holding {sd["agent"][3]}, agent {sd["agent"][:3]}', {'kind': 'history_door', 'action': a})
                opened += 1
        if a == 'ACTUATE' and M.in_grid(sd, f) and M.obj_type(M.cell(sd, f)) == 'Door' and M.parse_obj(M.cell(sd, f))['status'] == 'LOCKED' and M.cell(nd, f) == M.cell(sd, f):
            refused += 1
        # never beyond the dividing wall while the door is locked
        doors = [p for p, o in doors_boxes(nd).items() if M.obj_type(o) == 'Door']
        if doors and M.parse_obj(M.cell(nd, doors[0]))['status'] == 'LOCKED' and nd['agent'][1] >= doors[0][1]:
            ctx.fail(f'{case["config"]} step {i}: agent at {nd["agent"][:2]} beyond the wall column {doors[0][1]} while the door is locked', {'kind': 'history_beyond'})
        sd = nd
        if t:
            guarded(ctx, 'reset', env.reset)
            sd = objs.canon_state(env.state)
    ctx.ev.case(case, nt=(opened > 0 or refused > 0), classes=(['door_opened'] if opened else []) + (['locked_refused'] if refused else []) + ['guided' if case['guided'] else 'random'])


CHECKS = [
    Check('door_table', oracle_door, enumerate=enum_door, shards={'quick': 8, 'thorough': 16}, exhaustive=True,
          rule='4 headings x 3 statuses x 5 door colours x 9 held items x 7 relative placements x 8 actions, under actuate_door alone and the full chain, against model and documented rule'),
    Check('box_table', oracle_box, enumerate=enum_box, shards={'quick': 2, 'thorough': 4}, exhaustive=True,
          rule='4 headings x 10 contents (incl. nested boxes, doors) x 3 held items x 7 placements x 8 actions'),
    Check('generated', oracle_gen, strategy=strat_gen, examples={'quick': 340, 'thorough': 4000}, shards={'quick': 3, 'thorough': 16},
          rule='states with several doors/boxes (boxes containing doors) x random chains: model outcome membership; only a faced ACTUATE changes a door/box; keys not consumed',
          required=['actuate_door:LOCKED:match', 'actuate_door:LOCKED:nomatch', 'actuate_door:CLOSED:nomatch', 'actuate_box', 'changed', 'locked_same_colour_non_key', 'observed_first']),
    Check('keydoor_histories', oracle_hist, strategy=strat_hist, examples={'quick': 20, 'thorough': 300}, shards={'quick': 3, 'thorough': 16},
          rule='shipped key-door environments: model-plan prefixes (with and without picking the key) followed by random actions; every door change must be a faced ACTUATE with the matching key; never beyond the wall while locked',
          required=['door_opened', 'locked_refused']),
]


from vgv import worldedit  # noqa: E402

CHECKS.append(worldedit.make_check('C10'))


# ------------------------------------------------------------------ one agent object carried through a very wide world, actuating everywhere

SWEEP_LENGTHS = {'quick': [1100], 'thorough': [1100, 4100, 65600]}


def enum_pose_sweep(tier, shard, nshards):
    i = 0
    for L in SWEEP_LENGTHS[tier]:
        for hd in HEADINGS:
            for tall in (False, True):
                i += 1
                if i % nshards == shard:
                    yield {'L': L, 'heading': hd, 'tall': tall}


def oracle_pose_sweep(case, ctx):
    """a world of 2 x L (or L x 2) cells in which every third cell is a closed door; one agent object is put, in place, on many cells in turn
    (the beginning of both rows, around every power of two, the far end, evenly spaced ones) and actuates: exactly the door it faces
    opens (or stays open), every time.  Whatever is remembered about the agent's pose must follow the pose, however far out."""
    from gym_gridverse.geometry import Position
    from gym_gridverse.grid_object import Door
    L, hd = case['L'], case['heading']
    h, w = (L, 2) if case['tall'] else (2, L)
    long_ = max(h, w)
    is_door = lambda y, x: (x + 2 * y) % 3 == 0  # noqa: E731
    s = objs.build_state({'grid': [['D:CLOSED:RED' if is_door(y, x) else 'F' for x in range(w)] for y in range(h)], 'agent': [0, 1, hd, '_']})
    from gym_gridverse.envs.transition_functions import transition_function_registry as _REG
    act = _REG['actuate_door']
    A = objs.action('ACTUATE')
    s.agent.orientation = objs.ori(hd)
    ks = set(range(0, 40)) | set(range(long_ - 40, long_)) | set(range(0, long_, max(1, long_ // 400)))
    p2 = 64
    while p2 < long_:
        ks |= set(range(max(0, p2 - 3), min(long_, p2 + 4)))
        p2 *= 2
    open_ = set()
    prev = None
    n = 0
    order = [(short, k) for short in range(2) for k in sorted(ks)]
    # then jumps (as through a telepod, or by the owner of the agent): from the beginning of the second row straight to the cell a power of
    # two further along the first row, and back -- poses that differ in one high bit follow each other directly
    p2 = 64
    while p2 < long_:
        for d_ in range(0, 6):
            if p2 + d_ < long_:
                order += [(1, d_), (0, p2 + d_), (1, d_ + 1), (0, p2 + d_)]
        p2 *= 2
    for (short, k) in order:
        if True:
            y, x = (k, short) if case['tall'] else (short, k)
            if is_door(y, x) and (y, x) not in open_:
                continue                                   # the agent does not stand on a closed door
            s.agent.position = Position(y, x)
            f = (y + M.FWD[hd][0], x + M.FWD[hd][1])
            act(s, A)
            n += 1
            if 0 <= f[0] < h and 0 <= f[1] < w and is_door(*f):
                open_.add(f)                               # (actuating opens; an open door stays open)
            for q in [f] + ([prev] if prev else []):
                if 0 <= q[0] < h and 0 <= q[1] < w and is_door(*q):
                    real = s.grid[Position(*q)]
                    if not isinstance(real, Door) or real.is_open != (q in open_):
                        ctx.fail(f'{h}x{w} world: after ACTUATE from {(y, x)} heading {hd} the door at {q} is {"open" if getattr(real, "is_open", None) else "closed"}, '
                                 f'expected {"open" if q in open_ else "closed"} (the faced cell is {f}, the previously faced one {prev})', {'kind': 'door_rule', 'aspect': 'pose_sweep'})
            prev = f
    real_open = {(y, x) for y in range(h) for x in range(w) if is_door(y, x) and s.grid[y, x].is_open}
    if real_open != open_:
        ctx.fail(f'{h}x{w} world: after {n} actuations the open doors differ from the faced ones: unexpectedly open {sorted(real_open - open_)[:4]}, unexpectedly closed {sorted(open_ - real_open)[:4]}',
                 {'kind': 'door_rule', 'aspect': 'pose_sweep'})
    ctx.ev.case(case, nt=True, classes=[f'length:{L}'])
    ctx.ev.count('poses_swept', n)


CHECKS.append(Check('pose_sweep', oracle_pose_sweep, enumerate=enum_pose_sweep, shards={'quick': 8, 'thorough': 16}, exhaustive=True,
                    rule='a 2 x L / L x 2 world (L = 1100; thorough also 4100 and 65600) with a closed door on every third cell; one agent object put in place on the first and last 40 cells, around every power of two and on 400 evenly spaced cells of both rows x 4 headings, actuating each time: exactly the faced door changes',
                    required=['length:1100']))
