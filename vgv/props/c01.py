"""C01 -- closure and totality of step; membership predicates accept exactly the members."""
import itertools
import math

import numpy as np
from hypothesis import strategies as st

from vgv import envs, gen, model as M, objs
from vgv.framework import Check, guarded
from vgv.objs import ACTIONS, COLORS

from gym_gridverse.action import Action
from gym_gridverse.debugging import reset_gv_debug
from gym_gridverse.geometry import Shape
from gym_gridverse.spaces import ActionSpace, ObservationSpace, StateSpace

RULE = ('non-trivial step = the step changes the state, or the agent is on a grid edge facing outward with a move/actuate/pick '
        'action, or a telepod/obstacle/box is involved; distinct by digest of (state, action, composition).')
ASSUMPTIONS = [
    'states are built only from declared types/colours (box contents included)',
    'distance rewards are bound to a type that is unique in state and next state; reach_exit_memory only with a beacon present',
    'observation function area is the area the ObservationSpace stands for (ymax == 0, symmetric, odd width)',
]


# ------------------------------------------------------------------ (a) step closure


@st.composite
def strat_step(draw, tier):
    space = draw(gen.space_s())
    uniq_pool = [t for t in gen.UNIQUE_OK if t in space['types']]
    unique = draw(st.lists(st.sampled_from(uniq_pool), unique=True, max_size=2)) if uniq_pool else []
    comp = draw(gen.composition_s(space, has_beacon='Beacon' in unique, unique_pool=unique))
    need_valid = any(r['name'] == 'getting_closer_shortest_path' for r in comp['rewards'])
    state = draw(gen.state_s(space, max_hw=7 if tier == 'quick' else 9, valid=need_valid or draw(st.booleans()), unique=tuple(unique), allow_grow=True))
    if draw(st.integers(0, 7)) == 0:
        # the view that covers the grid exactly (agent at the bottom centre facing forward)
        h, w = M.shape(state)
        if w % 2 == 1 and not M.blocks_movement(state['grid'][h - 1][w // 2]) and M.obj_type(state['grid'][h - 1][w // 2]) not in unique:
            comp['view'] = [h, w]
            state['agent'][0], state['agent'][1], state['agent'][2] = h - 1, w // 2, 'F'
    if draw(st.integers(0, 3)) == 0:
        comp['actions'] = draw(st.lists(st.sampled_from(ACTIONS), min_size=1, unique=True))
    return {'space': space, 'state': state, 'action': draw(gen.action_s), 'comp': comp,
            'seed': draw(gen.seed_s), 'debug': draw(st.booleans())}


def _is_bool(x):
    return isinstance(x, (bool, np.bool_))


def _is_float(x):
    return isinstance(x, float) and not isinstance(x, bool)


def check_step_result(ctx, what, res, shape, types):
    if not (isinstance(res, tuple) and len(res) == 3):
        ctx.fail(f'{what}: functional_step did not return a triple', {'kind': 'result'})
    ns, r, t = res
    nd = objs.canon_state(ns)
    if not M.state_in_space(nd, shape, types):
        ctx.fail(f'{what}: next state is not in the state space (model): agent={nd["agent"]} shape={M.shape(nd)}', {'kind': 'closure'})
    if not _is_float(r) or not math.isfinite(r):
        ctx.fail(f'{what}: reward {r!r} ({type(r).__name__}) is not a finite float', {'kind': 'reward_type'})
    if not _is_bool(t):
        ctx.fail(f'{what}: terminal flag {t!r} ({type(t).__name__}) is not a boolean', {'kind': 'terminal_type'})
    return ns, nd


def oracle_step(case, ctx):
    space, sd, a, comp = case['space'], case['state'], case['action'], case['comp']
    shape = M.shape(sd)
    env = envs.mk_env(space, shape, comp, reset_state=sd)
    env.set_seed(case['seed'])
    reset_gv_debug(case['debug'])
    try:
        s = objs.build_state(sd)
        assert M.state_in_space(sd, shape, space['types'])
        if not env.state_space.contains(s):
            ctx.fail('state_space.contains rejects a conforming state', {'kind': 'contains'})
        allowed = comp.get('actions', ACTIONS)
        if a not in allowed:
            # rejection path
            env.reset()
            o0 = guarded(ctx, 'observation', lambda: env.observation)
            s0 = env.state
            c0, co0 = objs.canon_state(s0), objs.canon_state(o0)
            for what, f in [('step', lambda: env.step(objs.action(a))), ('functional_step', lambda: env.functional_step(s, objs.action(a)))]:
                try:
                    f()
                except ValueError:
                    pass
                except Exception as e:  # noqa: BLE001
                    ctx.fail(f'{what} with an action outside the action space raised {type(e).__name__}, not ValueError', {'kind': 'reject'})
                else:
                    ctx.fail(f'{what} accepted action {a} outside the action space {allowed}', {'kind': 'reject'})
            if objs.canon_state(env.state) != c0 or objs.canon_state(s) != sd:
                ctx.fail('rejected action changed the state', {'kind': 'reject'})
            if objs.canon_state(env.observation) != co0 or objs.canon_state(o0) != co0:      # by value: whether the same object is handed out again is not part of the property
                ctx.fail('rejected action changed the memoised observation', {'kind': 'reject'})
            # "change nothing" includes what cannot be seen yet: an environment that went through a rejection continues exactly like a twin
            # with the same seed that did not (same composition, and again with a stochastic observation function over a 7x7 view, where a
            # recomputed observation or a consumed random number shows)
            legal = [objs.action(x) for x in allowed]
            for comp2 in (comp, dict(comp, obs='stochastic_raytracing', view=[7, 7])):
                e1, e2 = envs.mk_env(space, shape, comp2, reset_state=sd), envs.mk_env(space, shape, comp2, reset_state=sd)
                traces = []
                for e, rejected in ((e1, True), (e2, False)):
                    e.set_seed(case['seed'])
                    e.reset()
                    tr = [objs.canon_state(e.observation)]
                    if rejected:
                        for _ in range(2):
                            try:
                                e.step(objs.action(a))
                            except ValueError:
                                pass
                    tr.append(objs.canon_state(e.observation))
                    for k in range(3):
                        r, t = e.step(legal[(case['seed'] + k) % len(legal)])
                        tr.append([float(r), bool(t), objs.canon_state(e.state), objs.canon_state(e.observation)])
                    e.reset()
                    tr.append([objs.canon_state(e.state), objs.canon_state(e.observation)])
                    traces.append(tr)
                if traces[0] != traces[1]:
                    k = next(i for i, (x, y) in enumerate(zip(*traces)) if x != y)
                    ctx.fail(f'after a rejected action the environment (observation function {comp2["obs"]}) no longer continues like a twin with the same seed that saw no rejection '
                             f'(first difference at entry {k}: 0/1 = observation before/after the rejection, 2-4 = legal steps, 5 = reset)', {'kind': 'reject', 'aspect': 'continuation'})
            ctx.ev.case(case, nt=True, classes=['rejected_action'])
            return
        res = guarded(ctx, f'functional_step[{"+".join(comp["chain"])}|{",".join(r["name"] for r in comp["rewards"])}|{comp["term"]["name"]}]',
                      env.functional_step, s, objs.action(a))
        ns, nd = check_step_result(ctx, 'step', res, shape, space['types'])
        if objs.canon_state(s) != sd:
            ctx.fail('functional_step modified its input state', {'kind': 'purity'})
        if not env.state_space.contains(ns):
            ctx.fail('state_space.contains rejects the next state', {'kind': 'closure'})
        vshape = tuple(comp['view'])
        for nm, st_ in (('state', s), ('next state', ns)):
            o = guarded(ctx, f'functional_observation[{comp["obs"]}] of {nm}', env.functional_observation, st_)
            od = objs.canon_state(o)
            if not M.obs_in_space(od, vshape, space['types'], space['colors']):
                ctx.fail(f'observation of {nm} not in observation space (model)', {'kind': 'obs_closure'})
            if not env.observation_space.contains(o):
                ctx.fail(f'observation_space.contains rejects observation of {nm}', {'kind': 'obs_closure'})
        # observing must leave the states inside the state space (a step from them must still be possible)
        for nm, st_, d in (('state', s, sd), ('next state', ns, nd)):
            after = objs.canon_state(st_)
            if after != d or not M.state_in_space(after, shape, space['types']) or not env.state_space.contains(st_):
                ctx.fail(f'after computing its observation ({comp["obs"]}, view {comp["view"]}) the {nm} is no longer the same member of the state space', {'kind': 'closure'})
        guarded(ctx, 'functional_step after the observations', env.functional_step, s, objs.action(a))
    finally:
        reset_gv_debug(None)
    # classes
    y, x, hd, held = sd['agent']
    h, w = shape
    fr = M.front(sd)
    edge_out = not M.in_grid(sd, fr)
    tgt_out = a in M.MOVE_TURNS and not M.in_grid(sd, M.move_target(sd, a))
    classes = ['chain:' + n for n in comp['chain']]
    if nd != sd:
        classes.append('changed')
    if (edge_out and a in ('ACTUATE', 'PICK_N_DROP', 'MOVE_FORWARD')) or tgt_out:
        classes.append('edge_outward')
    flat = [o for row in sd['grid'] for o in row]
    special = any(M.obj_type(o) in ('Telepod', 'MovingObstacle', 'Box') for o in flat)
    if special:
        classes.append('telepod/obstacle/box')
    if held != '_':
        classes.append('holding')
    ps = M.telepod_partners(sd)
    if ps is not None and not ps:
        classes.append('on_unpaired_telepod')
    classes.append('debug' if case['debug'] else 'nodebug')
    if list(comp['view']) == list(shape) and sd['agent'][:3] == [h - 1, w // 2, 'F']:
        classes.append('view==grid')
    if max(shape) >= 40:
        classes.append('long_world')
    ctx.ev.case(case, nt=(nd != sd or 'edge_outward' in classes or special), classes=classes,
                key=[sd, a, comp['chain'], [r['name'] for r in comp['rewards']], comp['term']['name'], comp['obs']],
                sample=(dict(case, state={'shape': list(shape), 'agent': sd['agent'], 'top_rows': sd['grid'][:2]}) if max(shape) >= 40 else None))


# ------------------------------------------------------------------ (b) membership predicates

STATE_ASPECTS = ['none', 'add_row', 'add_col', 'drop_row', 'undeclared_type', 'none_object_cell', 'hidden_object_cell', 'held_hidden', 'agent_y-1', 'agent_x-1', 'agent_y=h', 'agent_x=w', 'agent_far', 'held_undeclared',
                 'undeclared_color', 'held_undeclared_color']   # states: colours are not among the listed criteria, so these members conform
OBS_ASPECTS = ['none', 'add_row', 'add_2cols', 'drop_row', 'undeclared_type', 'undeclared_color', 'agent_y-1', 'agent_x-1', 'agent_y=h', 'agent_x=w', 'held_undeclared_type', 'held_undeclared_color', 'hidden_cell']


def _undeclared_obj(space, want_color=None):
    missing = [t for t in gen.GRID_TYPES if t not in space['types'] and t != 'Box']
    if not missing:
        return None
    t = missing[0] if want_color is None else missing[-1]
    return {'Floor': 'F', 'Wall': 'W', 'MovingObstacle': 'M', 'Exit': 'E:NONE', 'Key': 'K:NONE', 'Telepod': 'T:NONE',
            'Beacon': 'N:NONE', 'Door': 'D:OPEN:NONE'}[t]


def _colored_declared(space, color):
    for t, fmt in (('Exit', 'E:{}'), ('Key', 'K:{}'), ('Telepod', 'T:{}'), ('Beacon', 'N:{}'), ('Door', 'D:CLOSED:{}')):
        if t in space['types']:
            return fmt.format(color)
    return None


@st.composite
def strat_member(draw, tier):
    kind = draw(st.sampled_from(['state', 'obs']))
    space = draw(gen.space_s(must=()))
    if not space['types']:
        space['types'] = ['Floor']
    if kind == 'state':
        d = draw(gen.state_s(space, max_hw=6))
        aspect = draw(st.sampled_from(STATE_ASPECTS))
    else:
        vh, vw = draw(st.integers(1, 7)), draw(st.sampled_from([1, 3, 5, 7]))
        d = draw(gen.state_s(space, shape=(vh, vw)))
        d['agent'][2] = 'F'
        if draw(st.booleans()):
            d['agent'][0], d['agent'][1] = vh - 1, vw // 2
        aspect = draw(st.sampled_from(OBS_ASPECTS))
    return {'kind': kind, 'space': space, 'member': d, 'aspect': aspect, 'where': draw(st.integers(0, 10**6))}


def _mutate(case):
    import copy
    d = copy.deepcopy(case['member'])
    space, aspect, k = case['space'], case['aspect'], case['where']
    h, w = M.shape(d)
    y, x = k % h, (k // 7) % w
    applied = aspect
    if aspect == 'add_row':
        d['grid'].append(list(d['grid'][0]))
    elif aspect == 'add_col':
        for r in d['grid']:
            r.append(r[0])
    elif aspect == 'add_2cols':
        for r in d['grid']:
            r.extend([r[0], r[0]])
    elif aspect == 'drop_row':
        if h > 1:
            d['grid'].pop()
            if d['agent'][0] >= h - 1:
                d['agent'][0] = h - 2
        else:
            applied = 'none'
    elif aspect == 'undeclared_type':
        o = _undeclared_obj(space)
        if o is None:
            applied = 'none'
        else:
            d['grid'][y][x] = o
    elif aspect == 'undeclared_color':
        miss = [c for c in COLORS if c not in space['colors']]
        o = _colored_declared(space, miss[0]) if miss else None
        if o is None:
            applied = 'none'
        else:
            d['grid'][y][x] = o
    elif aspect == 'hidden_cell':
        d['grid'][y][x] = 'H'
    elif aspect == 'none_object_cell':
        d['grid'][y][x] = '_'      # "no object" is what an empty hand holds; it is not a declared grid object
    elif aspect == 'hidden_object_cell':
        d['grid'][y][x] = 'H'      # Hidden belongs to observations only
    elif aspect == 'held_hidden':
        d['agent'][3] = 'H'
    elif aspect == 'agent_y-1':
        d['agent'][0] = -1
    elif aspect == 'agent_x-1':
        d['agent'][1] = -1
    elif aspect == 'agent_y=h':
        d['agent'][0] = h
    elif aspect == 'agent_x=w':
        d['agent'][1] = w
    elif aspect == 'agent_far':
        d['agent'][0], d['agent'][1] = (k % 2000) - 1000 + 5000, -(k % 997) - 50
    elif aspect in ('held_undeclared', 'held_undeclared_type'):
        o = _undeclared_obj(space, 1)
        if o is None:
            applied = 'none'
        else:
            d['agent'][3] = o
    elif aspect == 'held_undeclared_color':
        miss = [c for c in COLORS if c not in space['colors']]
        o = _colored_declared(space, miss[-1]) if miss else None
        if o is None:
            applied = 'none'
        else:
            d['agent'][3] = o
    return d, applied


def oracle_member(case, ctx):
    space = case['space']
    shape = M.shape(case['member'])
    d, applied = _mutate(case)
    types, colors = envs.real_types(space['types']), envs.real_colors(space['colors'])
    if case['kind'] == 'state':
        sp = StateSpace(Shape(*shape), types, colors)
        exp = M.state_in_space(d, shape, space['types'])
        got = guarded(ctx, 'StateSpace.contains', sp.contains, objs.build_state(d))
    else:
        sp = ObservationSpace(Shape(*shape), types, colors)
        exp = M.obs_in_space(d, shape, space['types'], space['colors'])
        got = guarded(ctx, 'ObservationSpace.contains', sp.contains, objs.build_observation(d))
    if bool(got) != exp:
        ctx.fail(f'{case["kind"]} space contains() = {got} but the member {"conforms" if exp else "does not conform"} (aspect {applied})',
                 {'kind': 'contains', 'aspect': applied, 'space': case['kind']})
    ctx.ev.case(case, nt=(applied != 'none'), classes=[f'{case["kind"]}:{applied}', 'member' if exp else 'non-member'])


# ------------------------------------------------------------------ (c) action space, exhaustive


def enum_actions(tier, shard, nshards):
    for i, bits in enumerate(itertools.product([0, 1], repeat=8)):
        if i % nshards == shard:
            yield {'subset': [a for a, b in zip(ACTIONS, bits) if b], 'reverse': bool(i % 2)}


def oracle_actions(case, ctx):
    names = case['subset'][::-1] if case['reverse'] else case['subset']
    sp = ActionSpace([Action[n] for n in names])
    for a in ACTIONS:
        got = sp.contains(Action[a])
        if bool(got) != (a in names):
            ctx.fail(f'ActionSpace({names}).contains({a}) = {got}', {'kind': 'action_contains'})
    if sp.num_actions != len(names):
        ctx.fail('num_actions', {'kind': 'action_contains'})
    for i, n in enumerate(names):
        if sp.int_to_action(i) is not Action[n] or sp.action_to_int(Action[n]) != i:
            ctx.fail(f'int_to_action/action_to_int not inverse at {i}', {'kind': 'action_index'})
    ctx.ev.case(case, nt=(0 < len(names) < 8), classes=['subset'])


# ------------------------------------------------------------------ (d) shipped histories


def strat_hist(tier):
    n = 60 if tier == 'quick' else 300
    return st.fixed_dictionaries({
        'configs': st.one_of(st.just(envs.shipped_names()), st.lists(st.sampled_from(envs.shipped_names()), unique=True, min_size=1, max_size=3)),
        'seed': gen.seed_s,
        'debug': st.booleans(),
        'actions': st.lists(st.integers(0, 7), min_size=1, max_size=n),
    })


def config_space(name):
    data = envs.shipped_data(name)
    strip = lambda xs: [x.split(':')[-1] for x in xs]  # noqa: E731
    return (strip(data['state_space']['objects']), data['state_space']['colors'],
            strip(data['observation_space']['objects']), data['observation_space']['colors'])


def oracle_hist(case, ctx):
    for config in case['configs']:
        _hist_one(dict(case, config=config), ctx)


def _hist_one(case, ctx):
    reset_gv_debug(case['debug'])
    try:
        env = guarded(ctx, f'build {case["config"]}', envs.build_shipped, case['config'], case['seed'])
        stypes, _, otypes, ocolors = config_space(case['config'])
        guarded(ctx, 'reset', env.reset)
        shape = (env.state_space.grid_shape.height, env.state_space.grid_shape.width)
        vshape = (env.observation_space.grid_shape.height, env.observation_space.grid_shape.width)
        nact = env.action_space.num_actions
        changed = 0
        resets = 0

        def check_state(what):
            sd = objs.canon_state(env.state)
            if not M.state_in_space(sd, shape, stypes) or not env.state_space.contains(env.state):
                ctx.fail(f'{case["config"]}: {what}: state outside the declared state space: agent={sd["agent"]}', {'kind': 'closure'})
            o = guarded(ctx, 'observation', lambda: env.observation)
            od = objs.canon_state(o)
            if not M.obs_in_space(od, vshape, otypes, ocolors) or not env.observation_space.contains(o):
                ctx.fail(f'{case["config"]}: {what}: observation outside the declared observation space', {'kind': 'obs_closure'})
            return sd

        prev = check_state('reset')
        for i, ai in enumerate(case['actions']):
            a = env.action_space.int_to_action(ai % nact)
            r, t = guarded(ctx, f'step {a.name}', env.step, a)
            if not _is_float(r) or not math.isfinite(r):
                ctx.fail(f'{case["config"]}: reward {r!r} is not a finite float', {'kind': 'reward_type'})
            if not _is_bool(t):
                ctx.fail(f'{case["config"]}: terminal {t!r} is not boolean', {'kind': 'terminal_type'})
            cur = check_state(f'step {i} ({a.name})')
            changed += cur != prev
            prev = cur
            if t:
                guarded(ctx, 'reset', env.reset)
                resets += 1
                prev = check_state('reset')
    finally:
        reset_gv_debug(None)
    ctx.ev.case([case['config'], case['seed'], case['actions'], case['debug']], nt=(changed >= 3),
                classes=['cfg:' + case['config'].replace('.yaml', '')] + (['episode_end'] if resets else []),
                sample={'config': case['config'], 'seed': case['seed'], 'n_actions': len(case['actions']), 'changed_steps': changed, 'resets': resets})


CHECKS = [
    Check('step_closure', oracle_step, strategy=strat_step, examples={'quick': 1500, 'thorough': 5000},
          rule='space x member state (1x1..7x7, 9x9 thorough; one in sixteen tiled to a long world with a dimension of 40..300) x action x composition (chain of 1-7 transitions, 1-4 rewards, termination, observation function, view) x seed x debug flag',
          required=['edge_outward', 'changed', 'rejected_action', 'on_unpaired_telepod', 'debug', 'nodebug', 'view==grid', 'long_world']),
    Check('space_membership', oracle_member, strategy=strat_member, examples={'quick': 1500, 'thorough': 5000},
          rule='conforming members and single-aspect non-members of state/observation spaces; contains() must equal the model predicate (both directions); non-trivial = a mutation aspect was applied',
          required=['member', 'non-member']),
    Check('action_space', oracle_actions, enumerate=enum_actions, shards={'quick': 1, 'thorough': 1}, exhaustive=True,
          rule='all 2^8 action subsets (both orders) x all 8 actions: contains == membership; index maps inverse'),
    Check('shipped_histories', oracle_hist, strategy=strat_hist, examples={'quick': 12, 'thorough': 40},
          required=['cfg:' + n.replace('.yaml', '') for n in envs.shipped_names()],
          rule='22 shipped configurations x seeds x generated action sequences (<=60 quick, <=300 thorough) with reset on termination; non-trivial = >= 3 state-changing steps'),
]
