"""C11 -- stochastic dynamics obey their rules for every random outcome."""
import json

import numpy as np
from hypothesis import strategies as st

from vgv import gen, model as M, objs
from vgv.framework import Check, HarnessError, guarded
from vgv.objs import ACTIONS, COLORS, HEADINGS

from gym_gridverse.envs.transition_functions import transition_function_registry as REG, transition_with_copy
from gym_gridverse.rng import make_rng

RULE = ('non-trivial = at least one obstacle with a free neighbour, or the agent on a telepod with a same-coloured partner; '
        'every random choice is resolved exhaustively through a scripted numpy Generator (<= 256 joint outcomes) or by 256 seeds otherwise.')
ASSUMPTIONS = ['possibility claims are exact while the code draws through Generator.choice/integers (scripted); otherwise sampled with 256 seeds (stated per case in the classes)']

MAX_LEAVES = 256
NSEEDS = 256


class Scripted(np.random.Generator):
    """a genuine numpy Generator whose integer draws are answered from a script"""

    def __init__(self, script):
        super().__init__(np.random.PCG64(12345))
        self.script = list(script)
        self.radices = []
        self.unscripted = 0

    def _next(self, n):
        k = self.script.pop(0) if self.script else 0
        self.radices.append(n)
        return k % n

    def choice(self, a, size=None, replace=True, p=None, axis=0, shuffle=True):
        if isinstance(a, (int, np.integer)) and size is None and p is None:
            if a <= 0:
                raise ValueError('a must be a positive integer unless no samples are taken')
            return self._next(int(a))
        self.unscripted += 1
        return super().choice(a, size=size, replace=replace, p=p, axis=axis, shuffle=shuffle)

    def integers(self, low, high=None, size=None, dtype=np.int64, endpoint=False):
        if size is None:
            lo, hi = (0, low) if high is None else (low, high)
            n = int(hi) - int(lo) + (1 if endpoint else 0)
            if n <= 0:
                raise ValueError('low >= high')
            return int(lo) + self._next(n)
        self.unscripted += 1
        return super().integers(low, high, size=size, dtype=dtype, endpoint=endpoint)


def build_shared(sd, share):
    """the real state; with `share`, every obstacle cell holds the *same* MovingObstacle instance (a template stamped into several
    cells: obstacles carry no state of their own, so the rules apply to each cell all the same)"""
    s = objs.build_state(sd)
    if share:
        from gym_gridverse.geometry import Position
        one = None
        for p in M.positions(sd):
            if M.cell(sd, p) == 'M':
                if one is None:
                    one = s.grid[Position(*p)]
                else:
                    s.grid[Position(*p)] = one
    return s


def all_outcomes(fn_name, sd, action, share=False):
    """every outcome of the real transition: {canonical next state json}, mode"""
    fn = REG[fn_name]
    outs = set()
    leaves = 0

    def run(script):
        rng = Scripted(script)
        before = rng.bit_generator.state['state']['state']
        nd = objs.canon_state(transition_with_copy(fn, build_shared(sd, share), objs.action(action), rng=rng))
        raw = rng.bit_generator.state['state']['state'] != before or rng.unscripted
        return nd, rng.radices, raw

    stack = [[]]
    while stack:
        prefix = stack.pop()
        nd, radices, raw = run(prefix)
        if raw:
            return None, 'unscriptable'
        if len(radices) <= len(prefix):
            outs.add(json.dumps(nd, sort_keys=True))
            leaves += 1
            if leaves > MAX_LEAVES:
                return None, 'too_many'
            continue
        n = radices[len(prefix)]
        for v in range(n):
            stack.append(prefix + [v])
    return outs, 'exhaustive'


def seed_outcomes(fn_name, sd, action, base, share=False):
    fn = REG[fn_name]
    outs = set()
    for k in range(NSEEDS):
        nd = objs.canon_state(transition_with_copy(fn, build_shared(sd, share), objs.action(action), rng=make_rng(base * 1000 + k)))
        outs.add(json.dumps(nd, sort_keys=True))
    return outs


# ------------------------------------------------------------------ obstacles


@st.composite
def strat_obst(draw, tier):
    h = draw(st.sampled_from([1, 2, 3, 3, 4, 5]))
    w = draw(st.sampled_from([1, 2, 3, 3, 4, 5]))
    bg = st.sampled_from(['F'] * 6 + ['W', 'E:NONE', 'K:RED', 'D:OPEN:RED', 'T:BLUE', 'N:RED', 'B(F)', 'D:CLOSED:RED'])
    grid = [[draw(bg) for _ in range(w)] for _ in range(h)]
    n = min(draw(st.sampled_from([0, 1, 1, 1, 2, 2, 3, 3, 4])), h * w)
    cells = draw(st.lists(st.integers(0, h * w - 1), min_size=n, max_size=n, unique=True))
    for c in cells:
        grid[c // w][c % w] = 'M'
    y, x, hd = draw(gen.agent_pos_s(h, w))
    return {'state': {'grid': grid, 'agent': [y, x, hd, draw(st.sampled_from(['_', 'K:RED']))]}, 'action': draw(gen.action_s), 'seed': draw(st.integers(0, 10**6)),
            'share': draw(st.integers(0, 3)) == 0}


def oracle_obst(case, ctx):
    sd, a = case['state'], case['action']
    share = bool(case.get('share'))
    outs, mode = guarded(ctx, 'move_obstacles', all_outcomes, 'move_obstacles', sd, a, share)
    if outs is None:
        outs = guarded(ctx, 'move_obstacles', seed_outcomes, 'move_obstacles', sd, a, case['seed'], share)
        mode = 'seeds:' + mode
    allowed = M.obstacle_outcomes(sd['grid'])
    if allowed is None:
        raise HarnessError('model outcome set too large for a C11 layout')
    obstacles = [p for p in M.positions(sd) if M.cell(sd, p) == 'M']
    for o in outs:
        nd = json.loads(o)
        if nd['agent'] != sd['agent']:
            ctx.fail(f'move_obstacles changed the agent: {sd["agent"]} -> {nd["agent"]}', {'kind': 'obstacle_agent'})
        if json.dumps(nd['grid']) not in allowed:
            moved = [(p, M.cell(sd, p), M.cell(nd, p)) for p in M.positions(sd) if M.cell(sd, p) != M.cell(nd, p)]
            ctx.fail(f'obstacle outcome violates the rules (each obstacle: one turn, to a 4-neighbour that is floor at its turn, or stay only if none): changes {moved[:6]}',
                     {'kind': 'obstacle_rule'})
    # possibility
    free = {p: [q for q in M.neighbours4(p) if M.in_grid(sd, q) and M.cell(sd, q) == 'F'] for p in obstacles}
    grids = [json.loads(o)['grid'] for o in outs]
    if len(obstacles) == 1:
        p = obstacles[0]
        got = set()
        for g in grids:
            ms = [(y, x) for y in range(len(g)) for x in range(len(g[0])) if g[y][x] == 'M']
            got.add(ms[0] if len(ms) == 1 else None)
        want = set(free[p]) if free[p] else {p}
        if got != want:
            ctx.fail(f'single obstacle at {p}: destinations over all outcomes {sorted(map(str, got))} != free neighbours {sorted(want)} ({mode})', {'kind': 'obstacle_possibility'})
    else:
        for p in obstacles:
            for q in free[p]:
                if any(q in M.neighbours4(p2) for p2 in obstacles if p2 != p):
                    continue
                if not any(g[q[0]][q[1]] == 'M' for g in grids):
                    ctx.fail(f'obstacle at {p}: free neighbour {q} (reachable by no other obstacle) is never a destination ({mode})', {'kind': 'obstacle_possibility'})
    nfree = sum(1 for p in obstacles if free[p])
    edge = any(p[0] == 0 or p[1] == 0 for p in obstacles)
    ctx.ev.case(case, nt=(nfree > 0), classes=[f'obstacles={len(obstacles)}', mode] + (['obstacle_on_top_or_left_edge'] if edge else []) +
                (['boxed_in'] if any(not free[p] for p in obstacles) else []) + (['one_instance_in_several_cells'] if share and len(obstacles) > 1 else []), key=[sd, a, share])


# ------------------------------------------------------------------ telepods


@st.composite
def strat_tele(draw, tier):
    h = draw(st.sampled_from([1, 2, 3, 3, 4, 5]))
    w = draw(st.sampled_from([1, 2, 3, 4, 5, 5]))
    bg = st.sampled_from(['F'] * 6 + ['W', 'E:NONE', 'K:RED', 'M', 'N:RED', 'B(T:RED)'])
    grid = [[draw(bg) for _ in range(w)] for _ in range(h)]
    ncol = draw(st.integers(1, 3))
    cols = draw(st.lists(st.sampled_from(COLORS), min_size=ncol, max_size=ncol, unique=True))
    n = draw(st.integers(0, min(5, h * w)))
    cells = draw(st.lists(st.integers(0, h * w - 1), min_size=n, max_size=n, unique=True))
    for c in cells:
        grid[c // w][c % w] = 'T:' + draw(st.sampled_from(cols))
    if cells and draw(st.integers(0, 3)) > 0:
        c = draw(st.sampled_from(cells))
        y, x = c // w, c % w
        hd = draw(gen.heading_s)
    else:
        y, x, hd = draw(gen.agent_pos_s(h, w))
    return {'state': {'grid': grid, 'agent': [y, x, hd, draw(st.sampled_from(['_', 'K:RED', 'T:RED']))]}, 'action': draw(gen.action_s), 'seed': draw(st.integers(0, 10**6))}


def oracle_tele(case, ctx):
    sd, a = case['state'], case['action']
    outs, mode = guarded(ctx, 'teleport', all_outcomes, 'teleport', sd, a)
    if outs is None:
        outs = guarded(ctx, 'teleport', seed_outcomes, 'teleport', sd, a, case['seed'])
        mode = 'seeds:' + mode
    partners = M.telepod_partners(sd)
    dests = set()
    for o in outs:
        nd = json.loads(o)
        if nd['grid'] != sd['grid'] or nd['agent'][2:] != sd['agent'][2:]:
            ctx.fail('teleport changed something other than the agent position', {'kind': 'teleport_other'})
        dests.add(tuple(nd['agent'][:2]))
    here = tuple(sd['agent'][:2])
    if partners:
        bad = dests - set(partners)
        if bad:
            ctx.fail(f'agent on {M.cell(sd, here)} at {here} sent to {sorted(bad)}; same-coloured other telepods are {partners}', {'kind': 'teleport_rule'})
        missing = set(partners) - dests
        if missing:
            ctx.fail(f'agent on {M.cell(sd, here)} at {here}: partner telepod(s) {sorted(missing)} are never a destination over all outcomes ({mode})', {'kind': 'teleport_possibility'})
    else:
        if dests != {here}:
            ctx.fail(f'teleport displaced the agent from {here} to {sorted(dests)} although it is not on a paired telepod', {'kind': 'teleport_rule'})
    cl = [mode]
    if partners is None:
        cl.append('off_telepod')
    elif not partners:
        cl.append('unpaired')
    else:
        cl.append(f'partners={min(len(partners), 3)}{"+" if len(partners) > 3 else ""}')
    ctx.ev.case(case, nt=bool(partners), classes=cl, key=[sd, a])


# ------------------------------------------------------------------ user-defined subclasses of Floor / Telepod (extension through subclassing)

from gym_gridverse import grid_object as _go  # noqa: E402

_N = [0]


def strat_custom(tier):
    return st.fixed_dictionaries({'obst': strat_obst(tier), 'tele': strat_tele(tier), 'swap_names': st.booleans()})


def oracle_custom(case, ctx):
    """a subclass of Floor *is* floor and a subclass of Telepod *is* a telepod, whenever the class was defined and whatever it is called"""
    _N[0] += 1
    # fresh classes for every case, defined after earlier calls of the transitions in this process; the two share one __name__
    # with classes of the *other* kind from the previous case (a cache keyed by class name would confuse them)
    name_a, name_b = ('VerifThingA', 'VerifThingB') if (_N[0] % 2) ^ case['swap_names'] else ('VerifThingB', 'VerifThingA')
    MyFloor = type(name_a, (_go.Floor,), {})
    MyPod = type(name_b, (_go.Telepod,), {})
    fn_obst, fn_tele = REG['move_obstacles'], REG['teleport']

    # obstacles: every other floor cell is an instance of the user-defined floor
    sd, a = case['obst']['state'], case['obst']['action']
    allowed = M.obstacle_outcomes(sd['grid'])
    seen = set()
    for k in range(24):
        S = objs.build_state(sd)
        n = 0
        for p in M.positions(sd):
            if M.cell(sd, p) == 'F':
                n += 1
                if n % 2:
                    S.grid[p] = MyFloor()
        guarded(ctx, 'move_obstacles', fn_obst, S, objs.action(a), rng=make_rng(case['obst']['seed'] * 31 + k))
        g = [['F' if isinstance(o, _go.Floor) else objs.canon_obj(o) for o in row] for row in S.grid.objects]
        if json.dumps(g) not in allowed:
            moved = [(p, M.cell(sd, p), g[p[0]][p[1]]) for p in M.positions(sd) if M.cell(sd, p) != g[p[0]][p[1]]]
            ctx.fail(f'with user-defined Floor subclasses on the grid an obstacle outcome violates the rules: changes {moved[:6]}', {'kind': 'obstacle_rule', 'custom': True})
        seen.add(json.dumps(g))
    obstacles = [p for p in M.positions(sd) if M.cell(sd, p) == 'M']
    if len(obstacles) == 1:
        free = [q for q in M.neighbours4(obstacles[0]) if M.in_grid(sd, q) and M.cell(sd, q) == 'F']
        dests = {tuple(p) for gj in seen for p in [[(y, x) for y, r in enumerate(json.loads(gj)) for x, o in enumerate(r) if o == 'M'][0]]}
        if free and obstacles[0] in dests:
            ctx.fail(f'an obstacle with free (user-defined) floor neighbours {free} stayed where it was', {'kind': 'obstacle_rule', 'custom': True})
    # telepods: every telepod is an instance of the user-defined telepod class
    td, ta = case['tele']['state'], case['tele']['action']
    partners = M.telepod_partners(td)
    dests = set()
    for k in range(16):
        S = objs.build_state(td)
        for p in M.positions(td):
            if M.obj_type(M.cell(td, p)) == 'Telepod':
                S.grid[p] = MyPod(objs.color(M.color_of(M.cell(td, p))))
            elif M.cell(td, p) == 'F':
                S.grid[p] = MyFloor()     # teleport also meets the user-defined floor class (whose name a telepod class used in the previous case)
        guarded(ctx, 'teleport', fn_tele, S, objs.action(ta), rng=make_rng(case['tele']['seed'] * 17 + k))
        dests.add((int(S.agent.position.y), int(S.agent.position.x)))
    here = tuple(td['agent'][:2])
    if partners:
        if dests - set(partners):
            ctx.fail(f'agent on a user-defined telepod at {here} sent to {sorted(dests - set(partners))}; same-coloured other telepods are {partners}', {'kind': 'teleport_rule', 'custom': True})
        if len(partners) == 1 and dests != set(partners):
            ctx.fail(f'agent on a user-defined telepod at {here} with partner {partners} was not teleported', {'kind': 'teleport_rule', 'custom': True})
    elif dests != {here}:
        ctx.fail(f'teleport displaced the agent from {here} to {sorted(dests)} although it is not on a paired telepod', {'kind': 'teleport_rule', 'custom': True})
    ctx.ev.case(case, nt=bool(partners) or bool(obstacles), classes=['custom_floor', 'custom_telepod'] + (['paired'] if partners else []))


CHECKS = [
    Check('obstacles', oracle_obst, strategy=strat_obst, examples={'quick': 2500, 'thorough': 6000},
          rule='unwalled grids <= 5x5 with 0-4 obstacles among assorted objects: every outcome must be in the order-agnostic model outcome set; destinations cover every free neighbour',
          required=['obstacles=1', 'obstacles=3', 'exhaustive', 'obstacle_on_top_or_left_edge', 'boxed_in', 'one_instance_in_several_cells']),
    Check('telepods', oracle_tele, strategy=strat_tele, examples={'quick': 2500, 'thorough': 6000},
          rule='grids <= 5x5 with 0-5 telepods in 1-3 colours, agent on/off a telepod: destinations == same-coloured other telepods (each possible); otherwise no displacement, no exception',
          required=['partners=1', 'partners=2', 'unpaired', 'off_telepod', 'exhaustive']),
    Check('custom_subclasses', oracle_custom, strategy=strat_custom, examples={'quick': 300, 'thorough': 1200}, shards={'quick': 2, 'thorough': 8},
          rule='the obstacle and telepod layouts with user-defined subclasses of Floor and Telepod (fresh classes per case, defined after earlier calls, names re-used across kinds): same rules, 24 / 16 seeds each',
          required=['custom_floor', 'paired']),
]


# ------------------------------------------------------------------ telepods: destinations after the world changed


@st.composite
def strat_tele_hist(draw, tier):
    h, w = draw(st.sampled_from([2, 3, 4])), draw(st.sampled_from([3, 4, 5]))
    cells = [(y, x) for y in range(h) for x in range(w)]
    k = draw(st.integers(3, min(6, len(cells))))
    if draw(st.integers(0, 5)) == 0:
        # a crowd of telepods of one colour (more partners than any small constant a choice might be reduced by)
        h, w = draw(st.sampled_from([(4, 5), (5, 5), (3, 7)]))
        cells = [(y, x) for y in range(h) for x in range(w)]
        k = draw(st.integers(14, len(cells)))
    picked = draw(st.lists(st.sampled_from(cells), min_size=k, max_size=k, unique=True))
    col = draw(st.sampled_from(COLORS))
    n0 = draw(st.integers(1, k - 2)) if k <= 6 else draw(st.integers(k - 4, k - 2))     # partners present from the start
    edits = draw(st.lists(st.tuples(st.sampled_from(['add', 'add', 'remove', 'recolour']), st.integers(0, 9)), min_size=1, max_size=3))
    return {'shape': [h, w], 'home': list(picked[0]), 'partners': [list(p) for p in picked[1:1 + n0]], 'spare': [list(p) for p in picked[1 + n0:]], 'colour': col,
            'edits': [list(e) for e in edits], 'first_pick': draw(st.integers(0, 5)), 'heading': draw(st.sampled_from(HEADINGS))}


def oracle_tele_hist(case, ctx):
    """one world, in place: the agent teleports from its home telepod, the world is then edited through the public API (a same-coloured
    telepod put somewhere, one removed, one recoloured), the agent is put back on the home telepod: now *each* current partner must be a
    possible destination (every outcome of the generator's choice is resolved), and nothing else"""
    from gym_gridverse.geometry import Position
    from gym_gridverse.grid_object import Floor, Telepod
    h, w = case['shape']
    col = case['colour']
    other = next(c for c in COLORS if c != col)
    grid = [['F'] * w for _ in range(h)]
    home = tuple(case['home'])
    partners = [tuple(p) for p in case['partners']]
    spare = [tuple(p) for p in case['spare']]
    for p in [home] + partners:
        grid[p[0]][p[1]] = f'T:{col}'
    s = objs.build_state({'grid': grid, 'agent': [home[0], home[1], case['heading'], '_']})
    tele = REG['teleport']
    A = objs.action('TURN_LEFT')
    guarded(ctx, 'teleport (first)', tele, s, A, rng=Scripted([case['first_pick']]))
    if (s.agent.position.y, s.agent.position.x) not in partners:
        ctx.fail(f'first teleport from {home}: agent at {(s.agent.position.y, s.agent.position.x)}, partners {partners}', {'kind': 'teleport_rule'})
    for kind, k in case['edits']:
        if kind == 'add' and spare:
            p = spare.pop(k % len(spare))
            s.grid[Position(*p)] = Telepod(objs.color(col))
            partners.append(p)
        elif kind == 'remove' and len(partners) > 1:
            p = partners.pop(k % len(partners))
            s.grid[Position(*p)] = Floor()
            spare.append(p)
        elif kind == 'recolour' and len(partners) > 1:
            p = partners.pop(k % len(partners))
            s.grid[Position(*p)].color = objs.color(other)
    s.agent.position = Position(*home)
    got = set()
    radix = None
    scripted = True
    for v in range(len(partners) + 2):
        rng = Scripted([v])
        before = rng.bit_generator.state['state']['state']
        n = guarded(ctx, 'teleport (after the edits)', transition_with_copy, tele, s, A, rng=rng)
        got.add((n.agent.position.y, n.agent.position.x))
        radix = rng.radices[0] if rng.radices else None
        if rng.unscripted or rng.bit_generator.state['state']['state'] != before or (len(partners) > 1 and not rng.radices):
            scripted = False         # the choice is drawn in a way the script cannot steer: sample seeds instead (miss probability < 1e-20)
    if not scripted:
        got = set()
        for k in range(256):
            n = guarded(ctx, 'teleport (after the edits)', transition_with_copy, tele, s, A, rng=make_rng(1000 + k))
            got.add((n.agent.position.y, n.agent.position.x))
    if got != set(partners):
        ctx.fail(f'after the world was edited ({[e[0] for e in case["edits"]]}) and the agent put back on its telepod at {home}: destinations over all outcomes of the choice {sorted(got)}, '
                 f'same-coloured telepods now {sorted(partners)} (choice among {radix})', {'kind': 'teleport_possibility', 'aspect': 'history'})
    ctx.ev.case(case, nt=True, classes=sorted({'edit:' + e[0] for e in case['edits']}) + [f'partners_now:{min(len(partners), 3)}', 'choice_scripted' if scripted else 'choice_sampled_256_seeds'] + (['partners>=13'] if len(partners) >= 13 else []))


from vgv import worldedit  # noqa: E402

CHECKS.append(worldedit.make_check('C11'))


# ------------------------------------------------------------------ an obstacle on every cell of a very wide / very tall world

SWEEP_LENGTHS = {'quick': [1030], 'thorough': [1030, 1100, 2050, 4100]}


def enum_sweep(tier, shard, nshards):
    i = 0
    for L in SWEEP_LENGTHS[tier]:
        for tall in (False, True):
            for part in range(8):
                i += 1
                if i % nshards == shard:
                    yield {'L': L, 'tall': tall, 'part': part, 'parts': 8}


def oracle_sweep(case, ctx):
    """one all-floor world of 2 x L (or L x 2) cells; a single obstacle is put on every cell in turn and `move_obstacles` is called in
    place: it must end on one of its four in-grid neighbours (all free), the cell it left is floor, nothing else changes."""
    from gym_gridverse.geometry import Position
    from gym_gridverse.grid_object import Floor, MovingObstacle
    L = case['L']
    h, w = (L, 2) if case['tall'] else (2, L)
    s = objs.build_state({'grid': [['F'] * w for _ in range(h)], 'agent': [0, 0, 'F', '_']})
    mv = REG['move_obstacles']
    rng = make_rng(L)
    A = objs.action('MOVE_FORWARD')
    # the first cells are always visited (whatever is remembered about them is in place before the far cells are asked)
    cells = [(y, x) for y in range(h) for x in range(w)]
    low = [c for c in cells if (c[0] if case['tall'] else c[1]) < 32]          # the beginning of every row (column) of the long axis
    rest = [c for c in cells if c not in set(low)]
    mine = low + [c for k, c in enumerate(rest) if k % case['parts'] == case['part']]
    for (y, x) in mine:
        s.grid[Position(y, x)] = MovingObstacle()
        mv(s, A, rng=rng)
        neigh = [(y + dy, x + dx) for dy, dx in ((-1, 0), (1, 0), (0, -1), (0, 1)) if 0 <= y + dy < h and 0 <= x + dx < w]
        where = [q for q in neigh + [(y, x)] if isinstance(s.grid[Position(*q)], MovingObstacle)]
        if len(where) != 1 or where[0] == (y, x):
            # look further away before reporting
            far = [(a, b) for a in range(h) for b in range(w) if isinstance(s.grid[a, b], MovingObstacle)]
            ctx.fail(f'{h}x{w} all-floor world: the obstacle put on {(y, x)} is now on {far[:3]} (free neighbours: {neigh})', {'kind': 'obstacle_rule', 'aspect': 'coordinate_sweep'})
        q = where[0]
        if not isinstance(s.grid[Position(y, x)], Floor):
            ctx.fail(f'{h}x{w} world: the cell {(y, x)} an obstacle left holds {type(s.grid[Position(y, x)]).__name__}', {'kind': 'obstacle_rule', 'aspect': 'coordinate_sweep'})
        s.grid[Position(*q)] = Floor()
    ctx.ev.case(case, nt=True, classes=[f'length:{L}'])


CHECKS.append(Check('coordinate_sweep', oracle_sweep, enumerate=enum_sweep, shards={'quick': 16, 'thorough': 16}, exhaustive=True,
                    rule='all-floor worlds of 2 x L and L x 2 cells (L = 1030; thorough also 1100, 2050, 4100): a single obstacle on every cell in turn, moved in place: it ends on one of its four in-grid neighbours',
                    required=['length:1030']))

CHECKS.append(Check('telepod_histories', oracle_tele_hist, strategy=strat_tele_hist, examples={'quick': 200, 'thorough': 1000}, shards={'quick': 2, 'thorough': 16},
                    rule='one world in place: teleport once, then same-coloured telepods are added / removed / recoloured through the public API, the agent put back on its telepod: the set of destinations over every outcome of the choice == the telepods of that colour now',
                    required=['edit:add', 'edit:remove', 'edit:recolour', 'partners>=13']))
