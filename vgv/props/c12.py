"""C12 -- rewards and termination mean what they say, and agree with each other."""
import copy
import math

from hypothesis import strategies as st

from vgv import envs, gen, model as M, objs
from vgv import prelude
from vgv.framework import Check, guarded
from vgv.objs import ACTIONS, HEADINGS

from gym_gridverse.envs.transition_functions import transition_with_copy
from gym_gridverse.rng import make_rng

RULE = ('non-trivial = the function under test returns something other than its "off" value (0.0 / reward_off / False), '
        'or (compositions) at least one part is "on"; distinct by (function, parameters, triple).')
ASSUMPTIONS = [
    'distance rewards: the object type is unique in state and next state and does not block movement',
    'bump_into_wall: the agent does not itself stand on a wall',
    'all beacons of a state share one colour',
]

REWARDS = ['living_reward', 'overlap', 'reach_exit', 'bump_moving_obstacle', 'bump_into_wall', 'actuate_door', 'pickndrop',
           'proportional_to_distance', 'getting_closer', 'getting_closer_shortest_path', 'reach_exit_memory']
TERMS = ['overlap', 'reach_exit', 'bump_moving_obstacle', 'bump_into_wall']
FULLCHAIN = ['move_agent', 'turn_agent', 'actuate_door', 'actuate_box', 'pickndrop']
UNIQ = ('Exit', 'Beacon')


def close(a, b):
    return a == b or math.isclose(a, b, rel_tol=1e-12, abs_tol=1e-12)


def mutable(d):
    return {'grid': [list(r) for r in d['grid']], 'agent': list(d['agent'])}


@st.composite
def serpentine_s(draw, space):
    """(state, action): corridors of a boustrophedon maze (walled rows with one gap at alternating ends), optionally transposed,
    with or without an outer wall; Exit and Beacon on the first two corridor cells, the agent further along"""
    rows, L = draw(st.sampled_from([2, 3, 4, 5, 5, 6, 6])), draw(st.sampled_from([3, 4, 5, 6, 7, 8, 9, 10, 11, 7, 9, 11]))
    path, walls = [], []
    for r in range(rows):
        xs = list(range(L)) if r % 2 == 0 else list(range(L - 1, -1, -1))
        path += [(2 * r, x) for x in xs]
        if r + 1 < rows:
            gap = xs[-1]
            path.append((2 * r + 1, gap))
            walls += [(2 * r + 1, x) for x in range(L) if x != gap]
    H, W = 2 * rows - 1, L
    if draw(st.booleans()):
        path, walls, H, W = [(x, y) for y, x in path], [(x, y) for y, x in walls], W, H
    if draw(st.booleans()):
        path.reverse()
    frame = draw(st.booleans())
    o = 1 if frame else 0
    grid = [['W' if frame else 'F'] * (W + 2 * o) for _ in range(H + 2 * o)]
    for y in range(H):
        for x in range(W):
            grid[y + o][x + o] = 'F'
    for y, x in walls:
        grid[y + o][x + o] = 'W'
    path = [(y + o, x + o) for y, x in path]
    col = draw(st.sampled_from(space['colors']))
    first = draw(st.sampled_from([f'E:{col}', f'N:{col}']))
    second = f'N:{col}' if first.startswith('E') else f'E:{col}'
    grid[path[0][0]][path[0][1]], grid[path[1][0]][path[1][1]] = first, second
    k = draw(st.integers(2, len(path) - 1) | st.integers(max(2, len(path) - 4), len(path) - 1))
    hd = draw(st.sampled_from(HEADINGS))
    a = draw(st.sampled_from(['MOVE_FORWARD', 'MOVE_BACKWARD', 'MOVE_LEFT', 'MOVE_RIGHT', 'MOVE_FORWARD', 'MOVE_BACKWARD', 'TURN_LEFT', 'ACTUATE']))
    if draw(st.integers(0, 3)):
        # most of the time the agent looks along the corridor and walks it (one step towards or away from the head)
        j = k - 1 if (k + 1 >= len(path) or draw(st.booleans())) else k + 1
        step = (path[j][0] - path[k][0], path[j][1] - path[k][1])
        hd = [h for h in HEADINGS if M.FWD[h] == step][0]
        a = draw(st.sampled_from(['MOVE_FORWARD', 'MOVE_FORWARD', 'MOVE_BACKWARD']))
    return {'grid': grid, 'agent': [path[k][0], path[k][1], hd, '_']}, a


@st.composite
def triple_s(draw, tier, focus=None):
    """(state, action, next state or dynamics marker) honouring every documented precondition;
    scenario planting makes the function under test fire in a large fraction of cases"""
    space = draw(gen.space_s(must=('Floor', 'Exit', 'Beacon', 'Wall', 'Door', 'Key', 'MovingObstacle')))
    m = 6 if tier == 'quick' else 8
    h, w = draw(st.sampled_from([2, 3, 3, 4, 5, m])), draw(st.sampled_from([2, 3, 3, 4, 5, m]))
    s = mutable(draw(gen.state_s(space, shape=(h, w), valid=True, unique=UNIQ)))
    a = draw(gen.action_s)
    mode = draw(st.sampled_from(['dynamics', 'dynamics', 'arbitrary']))
    chain = FULLCHAIN if (draw(st.booleans()) or focus in ('actuate_door', 'pickndrop')) else draw(gen.chain_s(pool=FULLCHAIN + ['teleport']))
    plant = draw(st.integers(0, 3)) > 0
    if plant:
        # bring the agent next to something interesting (matching the function under test when there is one)
        pool = {'bump_into_wall': ['wall_ahead'], 'actuate_door': ['door_front'], 'pickndrop': ['key_front'],
                'reach_exit': ['exit_ahead'], 'overlap': ['exit_ahead', 'obstacle_ahead', 'key_front'], 'reach_exit_memory': ['exit_ahead'],
                'bump_moving_obstacle': ['obstacle_ahead'], 'getting_closer': ['exit_ahead', 'none'],
                'getting_closer_shortest_path': ['exit_ahead', 'door_front', 'none'], 'proportional_to_distance': ['exit_ahead', 'none'],
                }.get(focus, ['wall_ahead', 'exit_ahead', 'door_front', 'key_front', 'obstacle_ahead', 'none'])
        kindp = draw(st.sampled_from(pool))
        y, x = s['agent'][0], s['agent'][1]
        inward = [hh for hh in HEADINGS if M.in_grid(s, (y + M.FWD[hh][0], x + M.FWD[hh][1]))]
        if inward and kindp != 'none':
            s['agent'][2] = draw(st.sampled_from(inward))
            f = M.front(s)
            cur = M.cell(s, f)
            if M.obj_type(cur) not in UNIQ:
                if kindp == 'wall_ahead':
                    s['grid'][f[0]][f[1]] = 'W'
                    a = draw(st.sampled_from(['MOVE_FORWARD', 'MOVE_FORWARD', 'MOVE_LEFT', 'ACTUATE', 'TURN_LEFT']))
                elif kindp == 'door_front':
                    col = draw(st.sampled_from(space['colors']))
                    s['grid'][f[0]][f[1]] = f'D:{draw(st.sampled_from(objs.STATUSES))}:{col}'
                    s['agent'][3] = draw(st.sampled_from(['_', f'K:{col}']))
                    a = draw(st.sampled_from(['ACTUATE'] * 8 + ['MOVE_FORWARD', 'PICK_N_DROP']))
                elif kindp == 'key_front':
                    s['grid'][f[0]][f[1]] = draw(st.sampled_from(['F', 'K:' + draw(st.sampled_from(space['colors']))]))
                    s['agent'][3] = draw(st.sampled_from(['_', 'K:' + draw(st.sampled_from(space['colors']))]))
                    a = draw(st.sampled_from(['PICK_N_DROP', 'PICK_N_DROP', 'ACTUATE']))
                elif kindp == 'obstacle_ahead':
                    s['grid'][f[0]][f[1]] = 'M'
                    a = 'MOVE_FORWARD'
            if kindp == 'exit_ahead':
                # walk towards the (unique) exit if it is adjacent; otherwise stand next to it
                ex = M._unique_pos(s, 'Exit')
                for n in M.neighbours4(ex):
                    if M.in_grid(s, n) and not M.blocks_movement(M.cell(s, n)):
                        s['agent'][0], s['agent'][1] = n
                        acts, hd = M.turns_to_face(s['agent'][2], (ex[0] - n[0], ex[1] - n[1]))
                        s['agent'][2] = hd
                        a = draw(st.sampled_from(['MOVE_FORWARD', 'MOVE_FORWARD', 'MOVE_BACKWARD', 'TURN_LEFT']))
                        break
    maze = draw(st.integers(0, 2 if focus == 'getting_closer_shortest_path' else 23)) == 0
    if maze:
        # a serpentine corridor: the longest walks a grid of that size can hold (far longer than height + width); the unique
        # objects sit at its head, the agent walks somewhere along it (over-sampling the far tail)
        s, a = draw(serpentine_s(space))
        mode, chain, plant = 'dynamics', FULLCHAIN, False
    n = None
    if mode == 'arbitrary':
        n = mutable(draw(gen.state_s(space, shape=(h, w), valid=True, unique=UNIQ)))
        # same beacon colour in both states of the triple
        bc = M.color_of(M.cell(s, M._unique_pos(s, 'Beacon')))
        bp = M._unique_pos(n, 'Beacon')
        n['grid'][bp[0]][bp[1]] = f'N:{bc}'
        k = draw(st.integers(0, 5))
        if k == 0:
            ex = M._unique_pos(n, 'Exit')
            n['agent'][0], n['agent'][1] = ex
        elif k == 1:
            ms = M.find(n, lambda o: o == 'M')
            if ms:
                n['agent'][0], n['agent'][1] = ms[0]
        elif k == 2:
            # keep the grid, change door statuses only (open <-> closed both ways)
            n['grid'] = [list(r) for r in s['grid']]
            n['agent'][0], n['agent'][1] = s['agent'][0], s['agent'][1]
            for p in M.find(n, lambda o: M.obj_type(o) == 'Door'):
                if p == M.apos(n):
                    continue  # the agent never stands on a blocking cell (stated assumption of the distance rewards)
                n['grid'][p[0]][p[1]] = f'D:{draw(st.sampled_from(objs.STATUSES))}:{M.color_of(M.cell(n, p))}'
    if not maze and draw(st.integers(0, 39)) in (11, 17, 23, 29):
        # the same triple inside a world of more than 1000 cells (interior values: Hypothesis over-samples the ends of a range)
        H, W = draw(st.sampled_from([(36, 36), (16, 100), (100, 16), (300, 16)]))
        oy, ox = draw(st.integers(4, H - 4 - h)), draw(st.integers(4, W - 4 - w))
        s = gen.embed(s, H, W, oy, ox)
        if n is not None:
            n = gen.embed(n, H, W, oy, ox)
    return {'s': s, 'a': a, 'mode': mode, 'n': n, 'chain': chain, 'seed': draw(st.integers(0, 2**31)), 'space': space, 'maze': maze}


def next_of(case, ctx):
    if case['mode'] == 'arbitrary':
        return case['n']
    fn = envs.mk_transition(case['chain'])
    ns = guarded(ctx, 'transition', transition_with_copy, fn, objs.build_state(case['s']), objs.action(case['a']), rng=make_rng(case['seed']))
    return objs.canon_state(ns)


# ------------------------------------------------------------------ (a) single components


@st.composite
def strat_reward(draw, tier):
    name = draw(st.sampled_from(REWARDS))
    case = draw(triple_s(tier, focus=name))
    space = case['space']
    spec = {'name': name}
    pr = lambda k: spec.__setitem__(k, draw(st.sampled_from([0.0, 0.0, 0]) | gen.fin)) if draw(st.integers(0, 3)) else None  # noqa: E731
    if name == 'living_reward':
        pr('reward')
    elif name == 'overlap':
        spec['object_type'] = draw(st.sampled_from(['Exit', 'MovingObstacle', 'Floor', 'Key', 'Beacon', 'Door']))
        pr('reward_on'); pr('reward_off')
    elif name == 'reach_exit':
        pr('reward_on'); pr('reward_off')
    elif name in ('bump_moving_obstacle', 'bump_into_wall'):
        pr('reward')
    elif name == 'actuate_door':
        pr('reward_open'); pr('reward_close')
    elif name == 'pickndrop':
        spec['object_type'] = draw(st.sampled_from(['Key', 'Key', 'Wall', 'Beacon']))
        pr('reward_pick'); pr('reward_drop')
    elif name == 'proportional_to_distance':
        spec['object_type'] = draw(st.sampled_from(UNIQ))
        if draw(st.booleans()):
            spec['distance_function'] = draw(st.sampled_from(['manhattan', 'euclidean']))
        pr('reward_per_unit_distance')
    elif name in ('getting_closer', 'getting_closer_shortest_path'):
        spec['object_type'] = draw(st.sampled_from(UNIQ))
        if name == 'getting_closer' and draw(st.booleans()):
            spec['distance_function'] = draw(st.sampled_from(['manhattan', 'euclidean']))
        pr('reward_closer'); pr('reward_further')
    elif name == 'reach_exit_memory':
        pr('reward_good'); pr('reward_bad')
    case['spec'] = spec
    return case


OFF = {'overlap': 'reward_off', 'reach_exit': 'reward_off'}


def oracle_reward(case, ctx):
    prelude.door_first(ctx)
    s, a, spec = case['s'], case['a'], case['spec']
    n = next_of(case, ctx)
    via = bool(case['seed'] % 2)   # obtained by name through the factory, or bound directly on the registry function
    f = guarded(ctx, f'reward factory {spec["name"]}', envs.mk_reward, spec, via)
    S, N = objs.build_state(s), objs.build_state(n)
    got = guarded(ctx, f'reward {spec["name"]}', f, S, objs.action(a), N)
    exp = M.reward(spec, s, a, n)
    if not isinstance(got, (int, float)) or isinstance(got, bool) or not close(float(got), exp):
        ctx.fail(f'reward {spec}{" (built by factory)" if via else ""} on action {a} ({case["mode"]} next state): got {got!r}, documented value {exp!r}; agent {s["agent"]} -> {n["agent"]}',
                 {'kind': 'reward_value', 'name': spec['name']})
    # deterministic and read-only
    again = f(S, objs.action(a), N)
    if again != got or objs.canon_state(S) != s or objs.canon_state(N) != n:
        ctx.fail(f'reward {spec["name"]} is not a read-only deterministic function', {'kind': 'reward_pure', 'name': spec['name']})
    # the same two State objects, edited in place by their owner (doors toggled, the agent of the next state put back), asked again:
    # the value is the documented one for the triple as it is now (nothing about an earlier question may be remembered by object)
    import copy
    from gym_gridverse.geometry import Position
    from gym_gridverse import grid_object as go
    n2 = copy.deepcopy(n)
    back = (s['agent'][0], s['agent'][1])
    edited = 0
    for p in M.find(n2, lambda o: M.obj_type(o) == 'Door'):
        if p in (back, M.apos(n2)):
            continue
        po = M.parse_obj(M.cell(n2, p))
        new_status = 'OPEN' if po['status'] != 'OPEN' else 'CLOSED'
        n2['grid'][p[0]][p[1]] = f"D:{new_status}:{po['color']}"
        N.grid[Position(*p)].state = go.Door.Status[new_status]
        edited += 1
    if M.in_grid(n2, back) and not M.blocks_movement(M.cell(n2, back)) and back != M.apos(n2):
        n2['agent'][0], n2['agent'][1] = back
        N.agent.position = Position(*back)
        edited += 1
    if edited:
        if objs.canon_state(N) != n2:
            raise AssertionError('harness: in-place edit not reflected')
        got2 = guarded(ctx, f'reward {spec["name"]} (after in-place edits)', f, S, objs.action(a), N)
        exp2 = M.reward(spec, s, a, n2)
        if not close(float(got2), exp2):
            ctx.fail(f'reward {spec} on action {a}: after the next-state object was edited in place ({edited} edits: doors toggled / agent put back) the same objects give {got2!r}, '
                     f'documented value for the triple as it is now {exp2!r} (first answer {got!r})', {'kind': 'reward_value', 'name': spec['name'], 'aspect': 'edited_in_place'})
    off = spec.get(OFF.get(spec['name'], ''), 0.0) if spec['name'] in OFF else 0.0
    fired = exp != off if spec['name'] != 'living_reward' else True
    zero = any(v == 0 and not isinstance(v, bool) for k, v in spec.items() if k.startswith('reward'))
    ctx.ev.case(case, nt=fired, classes=[f'{spec["name"]}:{"on" if fired else "off"}', 'mode:' + case['mode'], 'via_factory' if via else 'direct'] + (['zero_valued_parameter'] if zero else [])
                + (['asked_again_after_in_place_edit'] if edited else []) + (['world>1000cells'] if M.shape(s)[0] * M.shape(s)[1] > 1000 else []) + (['serpentine_maze'] if case.get('maze') else []), key=[s, a, n, spec])


@st.composite
def strat_term(draw, tier):
    case = draw(triple_s(tier, focus=draw(st.sampled_from(['bump_into_wall', 'reach_exit', 'bump_moving_obstacle', None]))))
    case['spec'] = draw(gen.term_spec_s({'types': ['Exit', 'MovingObstacle', 'Floor', 'Key', 'Wall', 'Door']}, depth=2))
    if draw(st.integers(0, 9)) == 0:
        # by construction: a conjunction whose parts fire together (true conjunctions are rare among random compositions)
        case['spec'] = {'name': 'reduce_all', 'terminating_functions': [{'name': 'reach_exit'}, {'name': 'overlap', 'object_type': 'Exit'}]}
    return case


def oracle_term(case, ctx):
    s, a, spec = case['s'], case['a'], case['spec']
    n = next_of(case, ctx)
    f = envs.mk_term(spec, bool(case['seed'] % 2))
    S, N = objs.build_state(s), objs.build_state(n)
    got = guarded(ctx, f'termination {spec["name"]}', f, S, objs.action(a), N)
    exp = M.terminal(spec, s, a, n)
    if bool(got) != exp or got not in (True, False):
        ctx.fail(f'termination {spec} on {a}: got {got!r}, documented {exp}; agent {s["agent"]} -> {n["agent"]}', {'kind': 'term_value', 'name': spec['name']})
    if objs.canon_state(S) != s or objs.canon_state(N) != n:
        ctx.fail('termination function modified a state', {'kind': 'term_pure'})
    ctx.ev.case(case, nt=exp, classes=[f'{spec["name"]}:{"on" if exp else "off"}', 'mode:' + case['mode']], key=[s, a, n, spec])


# ------------------------------------------------------------------ (b) compositions and GridWorld


@st.composite
def strat_comp(draw, tier):
    case = draw(triple_s(tier))
    space = case['space']
    case['mode'] = 'dynamics'
    case['rewards'] = draw(st.lists(gen.reward_spec_s(space, UNIQ, allow_memory=True), min_size=1, max_size=4))
    case['term'] = draw(gen.term_spec_s(space, depth=2))
    return case


def oracle_comp(case, ctx):
    prelude.door_first(ctx)
    s, a = case['s'], case['a']
    comp = {'chain': case['chain'], 'rewards': case['rewards'], 'term': case['term'], 'obs': 'fully_transparent', 'view': [1, 1], 'via_factory': bool(case['seed'] % 2)}
    env = envs.mk_env(case['space'], M.shape(s), comp, reset_state=s)
    env.set_seed(case['seed'])
    S = objs.build_state(s)
    ns, r, t = guarded(ctx, 'functional_step', env.functional_step, S, objs.action(a))
    n = objs.canon_state(ns)
    parts = [M.reward(spec, s, a, n) for spec in case['rewards']]
    exp_r = sum(parts)
    exp_t = M.terminal(case['term'], s, a, n)
    if not close(float(r), exp_r):
        ctx.fail(f'GridWorld reward {r!r} != sum of the documented parts {parts} = {exp_r!r} evaluated on (state, action, returned next state); '
                 f'action {a}, agent {s["agent"]} -> {n["agent"]}, rewards {[x["name"] for x in case["rewards"]]}', {'kind': 'composite_reward'})
    if bool(t) != exp_t:
        ctx.fail(f'GridWorld terminal {t!r} != documented {exp_t} for {case["term"]}; action {a}, agent {s["agent"]} -> {n["agent"]}', {'kind': 'composite_term'})
    # composite functions called directly
    rs = envs.mk_rewards(case['rewards'])(S, objs.action(a), ns)
    if not close(float(rs), exp_r):
        ctx.fail(f'reduce_sum gave {rs!r}, parts sum to {exp_r!r}', {'kind': 'composite_reward'})
    # exit reward paid on exactly the steps on which exit-termination fires
    exit_r = envs.mk_reward({'name': 'reach_exit', 'reward_on': 1.0, 'reward_off': 0.0})(S, objs.action(a), ns)
    exit_t = envs.mk_term({'name': 'reach_exit'})(S, objs.action(a), ns)
    if (exit_r == 1.0) != bool(exit_t):
        ctx.fail(f'reach_exit reward ({exit_r}) and reach_exit termination ({exit_t}) disagree', {'kind': 'exit_agreement'})
    on = sum(1 for spec, p in zip(case['rewards'], parts) if spec['name'] != 'living_reward' and p not in (0.0, spec.get('reward_off', 0.0)))
    ctx.ev.case(case, nt=(on > 0 or exp_t), classes=[f'parts_on={min(on, 2)}', 'terminal' if exp_t else 'nonterminal', 'term:' + case['term']['name']],
                key=[s, a, case['rewards'], case['term'], case['chain']])


# ------------------------------------------------------------------ (c) shipped trajectories


def strat_hist(tier):
    names = [n for n in envs.shipped_names() if n != 'coin_env.yaml']
    n = 40 if tier == 'quick' else 200
    return st.fixed_dictionaries({
        'configs': st.one_of(st.just(names), st.lists(st.sampled_from(names), unique=True, min_size=1, max_size=3)),
        'seed': gen.seed_s,
        'guided': st.booleans(),
        'continue_after_terminal': st.integers(0, 3),   # how many further steps are taken on a finished episode before resetting
        'actions': st.lists(st.sampled_from([0, 0, 0, 1, 2, 3, 4, 5, 6, 7]), min_size=1, max_size=n),
    })


def oracle_hist(case, ctx):
    for config in case['configs']:
        data = envs.shipped_data(config)
        rspecs = data['reward_functions']
        tspec = data['terminating_function']
        env = guarded(ctx, 'build', envs.build_shipped, config, case['seed'])
        guarded(ctx, 'reset', env.reset)
        sd = objs.canon_state(env.state)
        nact = env.action_space.num_actions
        names = [env.action_space.int_to_action(i % nact).name for i in case['actions']]
        if case['guided']:
            # walk to the (matching) exit first so that exit rewards and termination are exercised
            plan = M.plan_keydoor(sd) if 'keydoor' in config else None
            if plan is None:
                exits = M.find(sd, lambda o: M.obj_type(o) == 'Exit')
                if exits:
                    plan = M.plan_reach(sd, exits[case['seed'] % len(exits)], avoid=set(exits))
            names = [a for a in (plan or []) if a in [x.name for x in env.action_space.actions]] + names
        total = 0.0
        total_model = 0.0
        fired = 0
        terminals = 0
        overtime = 0
        continued = 0
        pending = case.get('continue_after_terminal', 0)
        for i, a in enumerate(names):
            r, t = guarded(ctx, f'step {a}', env.step, objs.action(a))
            nd = objs.canon_state(env.state)
            parts = [M.reward(spec, sd, a, nd) for spec in rspecs]
            exp_t = M.terminal(tspec, sd, a, nd)
            if not close(float(r), sum(parts)):
                ctx.fail(f'{config} step {i} ({a}): reward {r!r} != documented parts {dict(zip([s["name"] for s in rspecs], parts))}', {'kind': 'shipped_reward'})
            if bool(t) != exp_t:
                ctx.fail(f'{config} step {i} ({a}): terminal {t} != documented {exp_t}', {'kind': 'shipped_term'})
            # the exit part is "on" exactly when exit-termination fires
            for spec, p in zip(rspecs, parts):
                if spec['name'] in ('reach_exit', 'reach_exit_memory') and tspec['name'] == 'reach_exit':
                    on = p != spec.get('reward_off', 0.0) if spec['name'] == 'reach_exit' else p != 0.0
                    if on != bool(t):
                        ctx.fail(f'{config} step {i}: exit reward part is {"on" if on else "off"} but termination is {t}', {'kind': 'exit_agreement'})
                    fired += on
            total += r
            total_model += sum(parts)
            sd = nd
            if t:
                terminals += 1
                overtime = overtime + 1 if exp_t else overtime
                if pending > 0:
                    pending -= 1          # keep stepping the finished episode: flags must still be those of each single step
                    continued += 1
                    continue
                pending = case.get('continue_after_terminal', 0)
                guarded(ctx, 'reset', env.reset)
                sd = objs.canon_state(env.state)
        if not math.isclose(total, total_model, rel_tol=1e-9, abs_tol=1e-9):
            ctx.fail(f'{config}: return {total} != model return {total_model}', {'kind': 'shipped_reward'})
        ctx.ev.case([config, case['seed'], names], nt=(len(names) >= 10 and (fired > 0 or terminals > 0)),
                    classes=['cfg:' + config.replace('.yaml', '')] + (['exit_paid'] if fired else []) + (['terminated'] if terminals else []) + (['continued_after_terminal'] if continued else []),
                    sample={'config': config, 'seed': case['seed'], 'steps': len(names), 'return': total, 'exit_rewards': fired, 'terminals': terminals})


CHECKS = [
    Check('reward_components', oracle_reward, strategy=strat_reward, examples={'quick': 700, 'thorough': 2500}, shards={'quick': 4, 'thorough': 16},
          rule='each built-in reward x generated finite parameters x (state, action, arbitrary or dynamics-produced next state) against the docstring model, exact value; the same State objects are then edited in place (doors toggled, agent put back) and asked again',
          required=[f'{n}:on' for n in REWARDS] + ['mode:arbitrary', 'mode:dynamics', 'via_factory', 'direct', 'zero_valued_parameter', 'asked_again_after_in_place_edit', 'world>1000cells']),
    Check('termination_components', oracle_term, strategy=strat_term, examples={'quick': 500, 'thorough': 1500}, shards={'quick': 2, 'thorough': 16},
          rule='each built-in termination and nested reduce_any/reduce_all against the model',
          required=['reach_exit:on', 'bump_into_wall:on', 'bump_moving_obstacle:on', 'reduce_any:on', 'reduce_all:on', 'reduce_all:off']),
    Check('compositions', oracle_comp, strategy=strat_comp, examples={'quick': 500, 'thorough': 1500}, shards={'quick': 3, 'thorough': 16},
          rule='GridWorld.functional_step reward/terminal == model parts evaluated on (state, action, returned next state); reduce_sum == sum; exit reward <=> exit termination',
          required=['terminal', 'parts_on=1']),
    Check('shipped_trajectories', oracle_hist, strategy=strat_hist, examples={'quick': 8, 'thorough': 30},
          rule='21 shipped configurations x seeds x (guided walk to an exit +) generated actions: per-step reward == documented parts with the file parameters, termination == documented, exit part on <=> termination',
          required=['exit_paid', 'terminated', 'continued_after_terminal']),
]
