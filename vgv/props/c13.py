"""C13 -- reset functions always produce well-formed initial states (or raise ValueError)."""
from hypothesis import strategies as st

from vgv import gen, model as M, objs
from vgv.framework import Check
from vgv.objs import COLORS

from gym_gridverse.envs.reset_functions import reset_function_registry as REG
from gym_gridverse.geometry import Shape
from gym_gridverse import grid_object as go
from gym_gridverse.rng import make_rng

RULE = 'non-trivial = the call returned a state (rather than raising ValueError); distinct by (function, parameters, canonical state).'
ASSUMPTIONS = [
    'crossing is called with object_type Wall (the documented river object); the number of rivers actually drawn is not asserted',
    'a ValueError is a violation only for parameter families that are honourable by the functions\' own documented limits (see honourable())',
]

FUNCTIONS = ['empty', 'rooms', 'dynamic_obstacles', 'keydoor', 'crossing', 'teleport', 'memory', 'memory_rooms']
REAL = COLORS[1:]


def exact_splits(n, k):
    """does np.linspace(0, n-1, k+1) land on integers at least 2 apart (rooms with an interior)?"""
    return k >= 1 and (n - 1) % k == 0 and (n - 1) // k >= 2


def honourable(fn, p):
    """parameter families every reset function must honour (derived from its own documented limits)"""
    h, w = p['shape']
    if fn == 'empty':
        return h >= 4 and w >= 4
    if fn == 'dynamic_obstacles':
        return h >= 4 and w >= 4 and 0 <= p['num_obstacles'] <= (h - 2) * (w - 2) - 2
    if fn == 'keydoor':
        return h >= 4 and w >= 5  # built on `empty`, which needs height and width >= 4
    if fn == 'crossing':
        return h >= 5 and w >= 5 and h % 2 == 1 and w % 2 == 1 and p['num_rivers'] >= 1
    if fn == 'teleport':
        return h >= 4 and w >= 4
    if fn == 'memory':
        cs = p['colors']
        return h >= 5 and w >= 5 and w % 2 == 1 and 'NONE' not in cs and len(set(cs)) >= 2
    if fn in ('rooms', 'memory_rooms'):
        lh, lw = p['layout']
        if not (exact_splits(h, lh) and exact_splits(w, lw)):
            return False
        # floor cells available before placement: room interiors plus one passage per wall segment
        floor = lh * lw * ((h - 1) // lh - 1) * ((w - 1) // lw - 1) + (lh - 1) * lw + lh * (lw - 1)
        if fn == 'rooms':
            return floor >= 2
        cs = p['colors']
        return ('NONE' not in cs and len(set(cs)) >= 2 and p['num_beacons'] >= 1 and 2 <= p['num_exits'] <= len(set(cs))
                and floor >= 1 + p['num_beacons'] + p['num_exits'])
    return False


@st.composite
def params_s(draw, fn, tier):
    big = 12 if tier == 'quick' else 24
    valid = draw(st.integers(0, 9)) < 7
    wild_dim = st.integers(1, big)
    p = {}
    if fn in ('rooms', 'memory_rooms'):
        if valid:
            lh, lw = draw(st.integers(1, 3)), draw(st.integers(1, 3))
            if draw(st.booleans()):
                p['shape'] = [lh * draw(st.integers(2, 4)) + 1, lw * draw(st.integers(2, 4)) + 1]
            else:
                p['shape'] = [draw(st.integers(2 * lh + 1, big)), draw(st.integers(2 * lw + 1, big))]
            p['layout'] = [lh, lw]
        else:
            p['shape'] = [draw(wild_dim), draw(wild_dim)]
            p['layout'] = [draw(st.integers(1, 4)), draw(st.integers(1, 4))]
        if fn == 'memory_rooms':
            cs = draw(st.lists(st.sampled_from(REAL if valid else COLORS), unique=True, min_size=2 if valid else 0, max_size=5))
            p['colors'] = cs
            p['num_beacons'] = draw(st.integers(1, 3)) if valid else draw(st.integers(-1, 5))
            p['num_exits'] = draw(st.integers(2, max(2, len(cs)))) if valid else draw(st.integers(-1, 6))
    elif fn == 'memory':
        p['shape'] = [draw(st.integers(5, big)), draw(st.sampled_from([5, 7, 9, 11]))] if valid else [draw(wild_dim), draw(wild_dim)]
        p['colors'] = draw(st.lists(st.sampled_from(REAL if valid else COLORS), unique=True, min_size=2 if valid else 0, max_size=5))
    elif fn == 'crossing':
        p['shape'] = [draw(st.sampled_from([5, 7, 9, 11])), draw(st.sampled_from([5, 7, 9, 11]))] if valid else [draw(wild_dim), draw(wild_dim)]
        p['num_rivers'] = draw(st.integers(1, 6)) if valid else draw(st.integers(-1, 12))
    elif fn == 'keydoor':
        p['shape'] = [draw(st.integers(3, big)), draw(st.integers(5, big))] if valid else [draw(wild_dim), draw(wild_dim)]
    else:
        p['shape'] = [draw(st.integers(4, big)), draw(st.integers(4, big))] if valid else [draw(wild_dim), draw(wild_dim)]
        if fn == 'empty':
            p['random_agent'] = draw(st.booleans())
            p['random_exit'] = draw(st.booleans())
        if fn == 'dynamic_obstacles':
            h, w = p['shape']
            cap = max(0, (h - 2) * (w - 2) - 2)
            p['num_obstacles'] = draw(st.sampled_from([0, 1, cap, max(0, cap - 1)]) | st.integers(0, cap)) if valid else draw(st.integers(-1, cap + 3))
            p['random_agent'] = draw(st.booleans())
    return p


def strat(tier):
    return st.sampled_from(FUNCTIONS).flatmap(lambda fn: st.fixed_dictionaries({'fn': st.just(fn), 'p': params_s(fn, tier), 'seed': gen.seed_s}))


def call(fn, p, seed):
    kw = dict(p)
    kw['shape'] = Shape(*p['shape'])
    if 'layout' in kw:
        kw['layout'] = tuple(kw['layout'])
    if 'colors' in kw:
        kw['colors'] = set(go.Color[c] for c in kw['colors'])
    if fn == 'crossing':
        kw['object_type'] = go.Wall
    return REG[fn](**kw, rng=make_rng(seed))


def count(d, pred):
    return len(M.find(d, pred))


def malformed(fn, p, d):
    """list of reasons why descriptor d is not a well-formed initial state for fn(p)"""
    bad = []
    h, w = p['shape']
    if M.shape(d) != (h, w):
        return [f'shape {M.shape(d)} != requested {(h, w)}']
    border = [(y, x) for y in range(h) for x in range(w) if y in (0, h - 1) or x in (0, w - 1)]
    holes = [q for q in border if M.cell(d, q) != 'W']
    if holes:
        bad.append(f'wall boundary broken at {holes[:4]}')
    y, x, hd, held = d['agent']
    if not M.in_grid(d, (y, x)):
        return bad + [f'agent outside the grid at {(y, x)}']
    here = M.cell(d, (y, x))
    if held != '_':
        bad.append(f'agent holds {held}')
    if hd not in objs.HEADINGS:
        bad.append(f'agent heading {hd}')
    if M.blocks_movement(here) or M.obj_type(here) in ('Exit', 'MovingObstacle', 'Telepod'):
        bad.append(f'agent starts on {here} at {(y, x)}')
    types = {}
    for q in M.positions(d):
        types.setdefault(M.obj_type(M.cell(d, q)), []).append(q)
    exits = types.get('Exit', [])
    allowed = {'Wall', 'Floor', 'Exit'}
    if fn in ('empty', 'rooms', 'crossing', 'dynamic_obstacles', 'keydoor', 'teleport') and len(exits) != 1:
        bad.append(f'{len(exits)} exits instead of one')
    if fn == 'empty':
        inner = [M.cell(d, (a, b)) for a in range(1, h - 1) for b in range(1, w - 1)]
        if sorted(set(inner) - {'F'}) != ['E:NONE'] and inner:
            bad.append(f'interior of an empty room contains {sorted(set(inner) - {"F"})}')
    if fn == 'dynamic_obstacles':
        allowed |= {'MovingObstacle'}
        if len(types.get('MovingObstacle', [])) != p['num_obstacles']:
            bad.append(f'{len(types.get("MovingObstacle", []))} obstacles instead of {p["num_obstacles"]}')
    if fn == 'teleport':
        allowed |= {'Telepod'}
        tp = types.get('Telepod', [])
        if len(tp) != 2 or len({M.cell(d, q) for q in tp}) != 1:
            bad.append(f'telepods {[M.cell(d, q) for q in tp]} instead of two of one colour')
    if fn == 'keydoor':
        allowed |= {'Door', 'Key'}
        doors, keys = types.get('Door', []), types.get('Key', [])
        if len(doors) != 1 or len(keys) != 1:
            bad.append(f'{len(doors)} doors / {len(keys)} keys instead of one each')
        else:
            door, key = doors[0], keys[0]
            dp = M.parse_obj(M.cell(d, door))
            if dp['status'] != 'LOCKED':
                bad.append(f'door is {dp["status"]}, not LOCKED')
            if M.color_of(M.cell(d, key)) != dp['color']:
                bad.append(f'key {M.cell(d, key)} does not match door {M.cell(d, door)}')
            col = [M.cell(d, (a, door[1])) for a in range(1, h - 1) if (a, door[1]) != door]
            if any(c != 'W' for c in col) or not (1 < door[1] < w - 2 + 1) or not (1 <= door[0] <= h - 2):
                bad.append(f'door at {door} is not inside a full dividing wall column')
            if not key[1] < door[1]:
                bad.append(f'key at {key} is not on the near side of the wall column {door[1]}')
            if not x < door[1]:
                bad.append(f'agent at {(y, x)} is not on the key side of the wall column {door[1]}')
            if exits and not exits[0][1] > door[1]:
                bad.append(f'exit at {exits[0]} is not beyond the wall column {door[1]}')
    if fn in ('memory', 'memory_rooms'):
        allowed |= {'Beacon'}
        beacons = types.get('Beacon', [])
        ecols = [M.color_of(M.cell(d, q)) for q in exits]
        bcols = {M.color_of(M.cell(d, q)) for q in beacons}
        want_e = 2 if fn == 'memory' else p['num_exits']
        want_b = 2 if fn == 'memory' else p['num_beacons']
        if len(exits) != want_e:
            bad.append(f'{len(exits)} exits instead of {want_e}')
        if len(beacons) != want_b:
            bad.append(f'{len(beacons)} beacons instead of {want_b}')
        if len(set(ecols)) != len(ecols):
            bad.append(f'exit colours {ecols} are not pairwise distinct')
        if any(c not in p['colors'] for c in ecols):
            bad.append(f'exit colours {ecols} outside the requested colours {p["colors"]}')
        if len(bcols) != 1 or ecols.count(next(iter(bcols))) != 1:
            bad.append(f'beacon colours {sorted(bcols)} do not match exactly one exit of {ecols}')
    extra = set(types) - allowed
    if extra:
        bad.append(f'unexpected object types {sorted(extra)}')
    return bad


def oracle(case, ctx):
    fn, p, seed = case['fn'], case['p'], case['seed']
    hon = honourable(fn, p)
    try:
        s = call(fn, p, seed)
    except ValueError as e:
        if hon:
            ctx.fail(f'{fn}({p}) seed {seed}: ValueError ("{e}") for parameters the function documents as valid', {'kind': 'refused', 'fn': fn})
        ctx.ev.case(case, nt=False, classes=[fn + ':ValueError'])
        return
    except Exception as e:  # noqa: BLE001
        ctx.fail(f'{fn}({p}) seed {seed}: raised {type(e).__name__} ("{e}") instead of ValueError or a state', {'kind': 'wrong_exception', 'fn': fn, 'exc': type(e).__name__})
        ctx.ev.case(case, nt=False, classes=[fn + ':known'])
        return
    d = objs.canon_state(s)
    bad = malformed(fn, p, d)
    if bad:
        sig = {'kind': 'malformed', 'fn': fn}
        ctx.fail(f'{fn}({p}) seed {seed}: malformed initial state: {"; ".join(bad[:3])}', sig)
    # what a caller does to a returned state (transition functions work in place) must not leak into later initial states
    for row in s.grid.objects:
        for o in row:
            if isinstance(o, go.Door):
                o.state = go.Door.Status.OPEN
            if hasattr(o, 'color') and type(o) in (go.Exit, go.Key, go.Telepod, go.Beacon, go.Door):
                o.color = go.Color.GREEN if o.color is not go.Color.GREEN else go.Color.BLUE
    s.agent.position = type(s.agent.position)(0, 0)
    try:
        again = objs.canon_state(call(fn, p, seed))
    except Exception as e:  # noqa: BLE001
        ctx.fail(f'{fn}({p}) seed {seed}: a second call with the same seed raised {type(e).__name__}', {'kind': 'reset_history', 'fn': fn})
        again = d
    if again != d:
        ctx.fail(f'{fn}({p}) seed {seed}: a second call with the same seed returns a different state after the first result was modified in place '
                 f'(objects shared between calls?): {[(q, M.cell(d, q), M.cell(again, q)) for q in M.positions(d) if M.cell(d, q) != M.cell(again, q)][:4]}',
                 {'kind': 'reset_history', 'fn': fn})
    ctx.ev.case(case, nt=True, classes=[fn + ':state'] + ([fn + ':honourable'] if hon else []), key=[fn, p, d])


# ------------------------------------------------------------------ rare random outcomes, reached with an adversarial generator


@st.composite
def big_params_s(draw, fn):
    """large valid shapes (populations hundreds of times the sample size)"""
    n = draw(st.sampled_from([17, 21, 25, 33]))
    m = draw(st.sampled_from([17, 21, 25, 33]))
    if fn in ('rooms', 'memory_rooms'):
        p = {'shape': [n, m], 'layout': [draw(st.integers(1, 2)), draw(st.integers(1, 2))]}
        if fn == 'memory_rooms':
            p.update({'colors': ['RED', 'GREEN', 'BLUE'], 'num_beacons': draw(st.integers(1, 2)), 'num_exits': draw(st.integers(2, 3))})
        return p
    if fn == 'memory':
        return {'shape': [n, m], 'colors': ['RED', 'BLUE']}
    if fn == 'crossing':
        return {'shape': [n, m], 'num_rivers': draw(st.integers(1, 5))}
    if fn == 'dynamic_obstacles':
        return {'shape': [n, m], 'num_obstacles': draw(st.integers(1, 6)), 'random_agent': draw(st.booleans())}
    if fn == 'empty':
        return {'shape': [n, m], 'random_agent': draw(st.booleans()), 'random_exit': draw(st.booleans())}
    return {'shape': [n, m]}


@st.composite
def long_params_s(draw, fn, tier):
    """one long dimension (many rooms / rivers along it), the other kept small so that the exhaustive search stays cheap"""
    top = 72 if tier == 'quick' else 130
    if fn in ('rooms', 'memory_rooms'):
        L = draw(st.integers(5, top))
        r = draw(st.integers(1, max(1, min(14, (L - 1) // 2))))
        W = draw(st.sampled_from([5, 7, 9]))
        lw = draw(st.integers(1, 2))
        shape, layout = [L, W], [r, lw]
        if draw(st.booleans()):
            shape, layout = shape[::-1], layout[::-1]
        p = {'shape': shape, 'layout': layout}
        if fn == 'memory_rooms':
            p.update({'colors': ['RED', 'GREEN', 'BLUE'], 'num_beacons': 1, 'num_exits': draw(st.integers(2, 3))})
        return p
    if fn == 'crossing':
        L = draw(st.integers(2, 20)) * 2 + 1
        W = draw(st.sampled_from([5, 7, 9, 11, 13]))
        shape = [L, W] if draw(st.booleans()) else [W, L]
        return {'shape': shape, 'num_rivers': draw(st.integers(1, 9))}
    L = draw(st.integers(5, top))
    W = draw(st.integers(5, 8))
    shape = [L, W] if draw(st.booleans()) else [W, L]
    if fn == 'memory':
        if shape[1] % 2 == 0:
            shape[1] += 1
        return {'shape': shape, 'colors': ['RED', 'BLUE', 'GREEN']}
    if fn == 'empty':
        return {'shape': shape, 'random_agent': draw(st.booleans()), 'random_exit': draw(st.booleans())}
    if fn == 'dynamic_obstacles':
        return {'shape': shape, 'num_obstacles': draw(st.integers(1, 8)), 'random_agent': draw(st.booleans())}
    return {'shape': shape}


def strat_adv(tier):
    return st.sampled_from(FUNCTIONS).flatmap(lambda fn: st.fixed_dictionaries({
        'fn': st.just(fn), 'p': st.one_of(params_s(fn, tier), params_s(fn, tier), big_params_s(fn), long_params_s(fn, tier)), 'mode': st.sampled_from(['low', 'high']),
        'prefix': st.sampled_from([0, 1, 2, 4, 8, 12, 24, 40, 80, 200]), 'salt': st.integers(0, 7)}))


def oracle_adv(case, ctx):
    """every call of the Generator API is answered with a legal outcome chosen adversarially (extremes for the first calls, then
    cycling): outcomes that a seeded generator produces once in a billion runs.  Same oracle as `well_formed`."""
    from vgv.advrng import AdvRng
    fn, p = case['fn'], case['p']
    hon = honourable(fn, p)
    kw = dict(p)
    kw['shape'] = Shape(*p['shape'])
    if 'layout' in kw:
        kw['layout'] = tuple(kw['layout'])
    if 'colors' in kw:
        kw['colors'] = set(go.Color[c] for c in kw['colors'])
    if fn == 'crossing':
        kw['object_type'] = go.Wall
    rng = AdvRng(case['mode'], case['prefix'], case['salt'])
    what = f'{fn}({p}) under {case["mode"]} draws for the first {case["prefix"]} generator calls'
    try:
        s = REG[fn](**kw, rng=rng)
    except ValueError as e:
        if hon:
            ctx.fail(f'{what}: ValueError ("{e}") for parameters the function documents as valid', {'kind': 'refused', 'fn': fn})
        ctx.ev.case(case, nt=False, classes=[fn + ':ValueError'])
        return
    except Exception as e:  # noqa: BLE001
        ctx.fail(f'{what}: raised {type(e).__name__} ("{e}") instead of ValueError or a state', {'kind': 'wrong_exception', 'fn': fn, 'exc': type(e).__name__})
        return
    d = objs.canon_state(s)
    bad = malformed(fn, p, d)
    if bad:
        ctx.fail(f'{what}: malformed initial state: {"; ".join(bad[:3])}', {'kind': 'malformed', 'fn': fn})
    ctx.ev.case(case, nt=True, classes=[fn + ':state', 'mode:' + case['mode'], 'prefix>=12' if case['prefix'] >= 12 else 'prefix<12'] + (['large_shape'] if max(p['shape']) >= 17 else []) + (['long_shape'] if max(p['shape']) >= 31 else []) + sorted({'api:' + a for a in rng.api}))


# ------------------------------------------------------------------ every (length, number of rooms) combination


def enum_sweep(tier, shard, nshards):
    """rooms / memory_rooms along one long dimension: every length x every number of rooms that fits (wall coordinates are computed
    from the two numbers, so a defect may sit at one particular pair); crossing: every odd length x river count"""
    top = 160 if tier == 'quick' else 400
    i = 0
    for L in range(5, top + 1):
        for r in range(1, min(24, (L - 1) // 2) + 1):
            for fn in ('rooms', 'memory_rooms'):
                for transposed in (False, True):
                    i += 1
                    if i % nshards != shard:
                        continue
                    shape, layout = ([L, 5], [r, 1]) if not transposed else ([5, L], [1, r])
                    p = {'shape': shape, 'layout': layout}
                    if fn == 'memory_rooms':
                        p.update({'colors': ['RED', 'GREEN', 'BLUE'], 'num_beacons': 1, 'num_exits': 2})
                    yield {'fn': fn, 'p': p, 'seed': L * 31 + r}
    for L in range(5, (41 if tier == 'quick' else 81) + 1, 2):
        for n in range(1, (L - 3) // 2 + 1):
            for transposed in (False, True):
                i += 1
                if i % nshards != shard:
                    continue
                yield {'fn': 'crossing', 'p': {'shape': [L, 7] if not transposed else [7, L], 'num_rivers': n}, 'seed': L * 31 + n}


def oracle_sweep(case, ctx):
    fn, p, seed = case['fn'], case['p'], case['seed']
    try:
        s = call(fn, p, seed)
    except ValueError as e:
        if honourable(fn, p):
            ctx.fail(f'{fn}({p}) seed {seed}: ValueError ("{e}") for parameters the function documents as valid', {'kind': 'refused', 'fn': fn})
        ctx.ev.case(case, nt=False, classes=[fn + ':ValueError'])
        return
    d = objs.canon_state(s)
    bad = malformed(fn, p, d)
    if bad:
        ctx.fail(f'{fn}({p}) seed {seed}: malformed initial state: {"; ".join(bad[:3])}', {'kind': 'malformed', 'fn': fn})
    ctx.ev.case(case, nt=True, classes=[fn + ':state'] + (['length>=64'] if max(p['shape']) >= 64 else []))


CHECKS = [
    Check('well_formed', oracle, strategy=strat, examples={'quick': 1000, 'thorough': 6000}, shards={'quick': 4, 'thorough': 16},
          rule='8 reset functions x parameters (valid by construction ~70%, unconstrained otherwise: shapes 1..12/16, layouts 1..4, counts from -1 past capacity, colour sets of 0..5 with/without NONE) x seeds',
          required=[f + ':state' for f in FUNCTIONS] + [f + ':ValueError' for f in FUNCTIONS]),
    Check('adversarial_generator', oracle_adv, strategy=strat_adv, examples={'quick': 500, 'thorough': 3000}, shards={'quick': 4, 'thorough': 16},
          rule='the same functions and parameters with an adversarial Generator (legal extreme outcomes for the first 0-200 calls, cycling afterwards), also on shapes up to 33x33 and long thin ones (one dimension up to 72, thorough 130, with up to 14 rooms): well-formed state or ValueError',
          required=[f + ':state' for f in FUNCTIONS] + ['mode:low', 'mode:high', 'prefix>=12', 'large_shape', 'long_shape', 'api:integers', 'api:choice', 'api:shuffle']),
    Check('layout_sweep', oracle_sweep, enumerate=enum_sweep, shards={'quick': 16, 'thorough': 16}, exhaustive=True,
          rule='rooms and memory_rooms: every length 5..160 (thorough 400) x every number of rooms 1..24 that fits, both orientations; crossing: every odd length 5..41 (thorough 81) x every river count that fits; one seed each: well-formed state',
          required=['rooms:state', 'memory_rooms:state', 'crossing:state', 'length>=64']),
]
