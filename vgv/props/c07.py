"""C07 -- observations are egocentric: invariant under rotating the whole world."""
from hypothesis import strategies as st

from vgv import gen, model as M, obsutil
from vgv import prelude
from vgv.framework import Check, guarded

RULE = ('non-trivial = quarter turn q != 0 with a non-square grid or an asymmetric area, and at least one non-floor object in view; '
        'distinct by (state, q, area, function).')
ASSUMPTIONS = ['the world is rotated by coordinates ((y,x) -> (x, h-1-y), F->R->B->L), independently of Grid.__mul__',
               'partially_occluded only with area.ymax == 0']


@st.composite
def strat(draw, tier):
    space = draw(gen.space_s())
    sd = draw(gen.state_s(space, max_hw=7 if tier == 'quick' else 9, floor_weight=1))
    f = draw(st.sampled_from(obsutil.DETERMINISTIC))
    area = draw(gen.area_s(max_ext=4 if tier == 'quick' else 5, ymax_zero=(f == 'partially_occluded')))
    if draw(st.integers(0, 5)) == 0:
        # the view that covers the grid exactly, from some heading
        h, w = M.shape(sd)
        if f == 'partially_occluded':
            sd['agent'][0] = h - 1
        y, x = sd['agent'][0], sd['agent'][1]
        sd['agent'][2] = 'F'
        area = [[-y, h - 1 - y], [-x, w - 1 - x]]
        sd = M.rotate_world(sd, draw(st.integers(0, 3)))
    huge = f in ('fully_transparent', 'partially_occluded') and draw(st.integers(0, 24)) == 0
    if huge:
        area = draw(st.sampled_from(gen.HUGE_AREAS))
    pre = draw(st.sampled_from([None] + [g for g in obsutil.DETERMINISTIC if g != 'partially_occluded' or area[0][1] == 0]))
    pre = None if huge else pre
    return {'state': sd, 'area': area, 'f': f, 'q': draw(st.integers(1, 3)), 'pre': pre}


def oracle(case, ctx):
    prelude.door_first(ctx)
    sd, area, f, q = case['state'], case['area'], case['f'], case['q']
    from vgv import objs

    def look(d):
        # the same State object is observed twice (an earlier observation must not leak into the next)
        S = objs.build_state(d)
        if case.get('pre'):
            guarded(ctx, f'observation {case["pre"]}', obsutil.observe, case['pre'], S, area)
        return guarded(ctx, f'observation {f}', obsutil.observe, f, S, area)

    base = look(sd)
    for k in sorted({q, 4 - q} | ({2} if q != 2 else set())):
        rd = M.rotate_world(sd, k)
        rot = look(rd)
        if rot != base:
            diff = [((i, j), base['grid'][i][j], rot['grid'][i][j]) for i in range(len(base['grid'])) for j in range(len(base['grid'][0]))
                    if M.shape(rot) == M.shape(base) and base['grid'][i][j] != rot['grid'][i][j]]
            ctx.fail(f'{f}: observation changes when the world is rotated by {k} quarter turn(s): agent {sd["agent"][:3]} -> {rd["agent"][:3]}, area {area}, '
                     f'grid {M.shape(sd)}; differing view cells (cell, original, rotated): {diff[:4]}; agents {base["agent"]} vs {rot["agent"]}', {'kind': 'egocentric', 'f': f})
    h, w = M.shape(sd)
    asym = area[1][0] != -area[1][1] or area[0][1] != 0 or M.area_shape(area)[0] != M.area_shape(area)[1]
    nonfloor = any(c not in ('F', 'H') for r in base['grid'] for c in r)
    ctx.ev.case(case, nt=((h != w or asym) and nonfloor), classes=['f:' + f, 'heading:' + sd['agent'][2]] + (['nonsquare_grid'] if h != w else []) + (['asymmetric_area'] if asym else []) + (['second_observation'] if case.get('pre') else []) + (['view==grid'] if M.area_shape(area) == (h, w) else []) + (['huge_view'] if min(M.area_shape(area)) >= 32 else []),
                key=[sd, area, f])


CHECKS = [
    Check('rotation_invariance', oracle, strategy=strat, examples={'quick': 500, 'thorough': 2000}, shards={'quick': 4, 'thorough': 16},
          rule='generated state x every quarter turn x area x {fully_transparent, partially_occluded, raytracing}: observation of the coordinate-rotated world == observation of the original',
          required=['nonsquare_grid', 'asymmetric_area', 'second_observation', 'view==grid', 'f:raytracing', 'f:partially_occluded', 'heading:L', 'heading:B', 'heading:R', 'heading:F', 'huge_view']),
]
