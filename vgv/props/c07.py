"""C07 -- observations are egocentric: invariant under rotating the whole world."""
from hypothesis import strategies as st

from vgv import gen, model as M, obsutil
from vgv import prelude
from vgv.framework import Check, guarded
from vgv.objs import HEADINGS

RULE = ('non-trivial = quarter turn q != 0 with a non-square grid or an asymmetric area, and at least one non-floor object in view; '
        'distinct by (state, q, area, function).')
ASSUMPTIONS = ['the world is rotated by coordinates ((y,x) -> (x, h-1-y), F->R->B->L), independently of Grid.__mul__',
               'partially_occluded only with area.ymax == 0']


@st.composite
def strat(draw, tier):
    space = draw(gen.space_s())
    sd = draw(gen.state_s(space, max_hw=7 if tier == 'quick' else 9, floor_weight=1))
    f = draw(st.sampled_from(obsutil.DETERMINISTIC))
    area = draw(gen.area_s(max_ext=4 if tier == 'quick' else 5, ymax_zero=(f == 'partially_occluded')))
    if draw(st.integers(0, 5)) == 0:
        # the view that covers the grid exactly, from some heading
        h, w = M.shape(sd)
        if f == 'partially_occluded':
            sd['agent'][0] = h - 1
        y, x = sd['agent'][0], sd['agent'][1]
        sd['agent'][2] = 'F'
        area = [[-y, h - 1 - y], [-x, w - 1 - x]]
        sd = M.rotate_world(sd, draw(st.integers(0, 3)))
    huge = f in ('fully_transparent', 'partially_occluded') and draw(st.integers(0, 24)) == 0
    if huge:
        area = draw(st.sampled_from(gen.HUGE_AREAS))
    pre = draw(st.sampled_from([None] + [g for g in obsutil.DETERMINISTIC if g != 'partially_occluded' or area[0][1] == 0]))
    pre = None if huge else pre
    return {'state': sd, 'area': area, 'f': f, 'q': draw(st.integers(1, 3)), 'pre': pre}


def oracle(case, ctx):
    prelude.door_first(ctx)
    sd, area, f, q = case['state'], case['area'], case['f'], case['q']
    from vgv import objs

    def look(d):
        # the same State object is observed twice (an earlier observation must not leak into the next)
        S = objs.build_state(d)
        if case.get('pre'):
            guarded(ctx, f'observation {case["pre"]}', obsutil.observe, case['pre'], S, area)
        return guarded(ctx, f'observation {f}', obsutil.observe, f, S, area)

    base = look(sd)
    for k in sorted({q, 4 - q} | ({2} if q != 2 else set())):
        rd = M.rotate_world(sd, k)
        rot = look(rd)
        if rot != base:
            diff = [((i, j), base['grid'][i][j], rot['grid'][i][j]) for i in range(len(base['grid'])) for j in range(len(base['grid'][0]))
                    if M.shape(rot) == M.shape(base) and base['grid'][i][j] != rot['grid'][i][j]]
            ctx.fail(f'{f}: observation changes when the world is rotated by {k} quarter turn(s): agent {sd["agent"][:3]} -> {rd["agent"][:3]}, area {area}, '
                     f'grid {M.shape(sd)}; differing view cells (cell, original, rotated): {diff[:4]}; agents {base["agent"]} vs {rot["agent"]}', {'kind': 'egocentric', 'f': f})
    h, w = M.shape(sd)
    asym = area[1][0] != -area[1][1] or area[0][1] != 0 or M.area_shape(area)[0] != M.area_shape(area)[1]
    nonfloor = any(c not in ('F', 'H') for r in base['grid'] for c in r)
    ctx.ev.case(case, nt=((h != w or asym) and nonfloor), classes=['f:' + f, 'heading:' + sd['agent'][2]] + (['nonsquare_grid'] if h != w else []) + (['asymmetric_area'] if asym else []) + (['second_observation'] if case.get('pre') else []) + (['view==grid'] if M.area_shape(area) == (h, w) else []) + (['huge_view'] if min(M.area_shape(area)) >= 32 else []),
                key=[sd, area, f])


CHECKS = [
    Check('rotation_invariance', oracle, strategy=strat, examples={'quick': 500, 'thorough': 2000}, shards={'quick': 4, 'thorough': 16},
          rule='generated state x every quarter turn x area x {fully_transparent, partially_occluded, raytracing}: observation of the coordinate-rotated world == observation of the original',
          required=['nonsquare_grid', 'asymmetric_area', 'second_observation', 'view==grid', 'f:raytracing', 'f:partially_occluded', 'heading:L', 'heading:B', 'heading:R', 'heading:F', 'huge_view']),
]


# ------------------------------------------------------------------ the same pose sweep in a very wide world and in its three rotations

SWEEP_LENGTHS = {'quick': [1100], 'thorough': [1100, 4100, 65600]}


def enum_pose_sweep(tier, shard, nshards):
    i = 0
    for L in SWEEP_LENGTHS[tier]:
        for f in ('fully_transparent', 'partially_occluded'):
            for hd in HEADINGS:
                i += 1
                if i % nshards == shard:
                    yield {'L': L, 'f': f, 'heading': hd}


def oracle_pose_sweep(case, ctx):
    """a world of 2 x L cells with a sparse pattern of distinguishable objects, and the same world turned by one, two and three quarter
    turns (built once): the agent is put on many cells in turn (the beginning of both rows, cells around every power of two, the far end),
    in place, in all four worlds at the corresponding pose; the four observations must be the same.  Anything remembered per pose must be
    remembered under the right pose, however far out."""
    from gym_gridverse.geometry import Position
    from vgv import objs
    L, f, hd = case['L'], case['f'], case['heading']
    h, w = 2, L
    cell = lambda y, x: ['F', 'F', 'F', 'W', 'F', 'K:RED', 'F', 'F', 'E:NONE', 'F', 'F'][(x * 5 + y * 3) % 11]  # noqa: E731
    base = {'grid': [[cell(y, x) for x in range(w)] for y in range(h)], 'agent': [0, 0, hd, '_']}
    worlds = []
    d = base
    for k in range(4):
        worlds.append(objs.build_state(d))
        if k < 3:
            # one clockwise quarter turn: (y, x) of an H x W grid -> (x, H-1-y); built directly (a deep copy per turn of 130,000 cells is slow)
            H, W = len(d['grid']), len(d['grid'][0])
            new = [[None] * H for _ in range(W)]
            for y in range(H):
                row = d['grid'][y]
                for x in range(W):
                    new[x][H - 1 - y] = row[x]
            d = {'grid': new, 'agent': [0, 0, M.turn(d['agent'][2], 1), '_']}
    xs = set(range(0, 40)) | set(range(w - 40, w))
    p2 = 64
    while p2 < w:
        xs |= set(range(max(0, p2 - 3), min(w, p2 + 4)))
        p2 *= 2
    xs |= set(range(0, w, max(1, w // 400)))
    area = [[-1, 0], [-1, 1]]
    n = 0
    for y in range(h):
        for x in sorted(xs):
            if M.blocks_movement(cell(y, x)):
                continue
            obs_ = []
            py, px, H, W, heading = y, x, h, w, hd
            for k in range(4):
                S = worlds[k]
                S.agent.position = Position(py, px)
                S.agent.orientation = objs.ori(heading)
                obs_.append(guarded(ctx, f'observation {f}', obsutil.observe, f, S, area))
                py, px, H, W, heading = px, H - 1 - py, W, H, M.turn(heading, 1)
            n += 1
            if any(o != obs_[0] for o in obs_[1:]):
                k = next(i for i, o in enumerate(obs_) if o != obs_[0])
                ctx.fail(f'{f}: in a {h}x{w} world the observation from {(y, x)} heading {hd} changes when the world is turned by {k} quarter turn(s): '
                         f'{["".join(c[0] for c in r) for r in obs_[0]["grid"]]} vs {["".join(c[0] for c in r) for r in obs_[k]["grid"]]}', {'kind': 'egocentric', 'f': f, 'aspect': 'pose_sweep'})
    ctx.ev.case(case, nt=True, classes=[f'length:{L}', 'f:' + f])
    ctx.ev.count('poses_swept', n)


CHECKS.append(Check('pose_sweep', oracle_pose_sweep, enumerate=enum_pose_sweep, shards={'quick': 8, 'thorough': 16}, exhaustive=True,
                    rule='a 2 x L world (L = 1100; thorough also 4100 and 65600) and its three rotations, built once; the agent put in place on the first and last 40 columns, around every power of two and on 400 evenly spaced columns x 4 headings x 2 observation functions: the four observations agree',
                    required=['length:1100']))


# ------------------------------------------------------------------ worlds made of user-defined cells that look like sequences


def _shelf_class():
    from gym_gridverse import grid_object as go
    name = 'VerifShelf'
    if name in globals():
        return globals()[name]

    def __init__(self, tag, items=('a', 'b')):
        self.tag = tag
        self.items = list(items)

    cls = type(name, (go.GridObject,), {
        'state_index': 0, 'color': go.Color.NONE, 'blocks_movement': False, 'blocks_vision': False, 'holdable': False, '__init__': __init__,
        '__len__': lambda self: len(self.items), '__getitem__': lambda self, i: self.items[i],
        'can_be_represented_in_state': classmethod(lambda c: False), 'num_states': classmethod(lambda c: 1), '__module__': __name__, '__qualname__': name,
        '__repr__': lambda self: f'VerifShelf({self.tag})'})
    globals()[name] = cls
    return cls


def enum_shelves(tier, shard, nshards):
    i = 0
    for (h, w) in [(3, 3), (2, 4), (5, 3)]:
        for f in ('fully_transparent', 'partially_occluded', 'raytracing'):
            i += 1
            if i % nshards == shard:
                yield {'h': h, 'w': w, 'f': f}


def oracle_shelves(case, ctx):
    """a world in which every cell is a user-defined object implementing the sequence protocol (a shelf holding items), all of the same
    length, observed from every cell and heading, and the same world turned by quarter turns: the observations agree cell by cell
    (compared by the tags of the very objects), and every shown cell is one of the world's objects"""
    from gym_gridverse.agent import Agent
    from gym_gridverse.geometry import Position
    from gym_gridverse.grid import Grid
    from gym_gridverse.state import State
    from vgv import envs, objs
    Shelf = _shelf_class()
    h, w, f = case['h'], case['w'], case['f']
    tags = [[f'{y}.{x}' for x in range(w)] for y in range(h)]
    fn = envs.mk_obs(f, [[-2, 0], [-1, 1]])

    def view(tag_rows, y, x, hd):
        grid = Grid([[Shelf(t) for t in row] for row in tag_rows])
        o = fn(State(grid, Agent(Position(y, x), objs.ori(hd), None)))
        return [[getattr(c, 'tag', type(c).__name__) for c in row] for row in o.grid.objects]

    n = 0
    for y in range(h):
        for x in range(w):
            for hd in HEADINGS:
                base = guarded(ctx, f'observation {f} of a world of sequence-like cells', view, tags, y, x, hd)
                rows, py, px, H, W, heading = tags, y, x, h, w, hd
                for k in range(1, 4):
                    new = [[None] * H for _ in range(W)]
                    for a in range(H):
                        for b in range(W):
                            new[b][H - 1 - a] = rows[a][b]
                    rows, py, px, H, W, heading = new, px, H - 1 - py, W, H, M.turn(heading, 1)
                    rot = guarded(ctx, f'observation {f} of the turned world', view, rows, py, px, heading)
                    n += 1
                    if rot != base:
                        ctx.fail(f'{f}: a {h}x{w} world of user-defined sequence-like cells, agent at {(y, x)} heading {hd}: the observation changes when the world is turned by {k} quarter turn(s): '
                                 f'{base} vs {rot}', {'kind': 'egocentric', 'f': f, 'aspect': 'custom_cells'})
    ctx.ev.case(case, nt=True, classes=['f:' + f, 'sequence_like_cells'])
    ctx.ev.count('rotations_compared', n)


CHECKS.append(Check('custom_cells', oracle_shelves, enumerate=enum_shelves, shards={'quick': 3, 'thorough': 3}, exhaustive=True,
                    rule='worlds of 3x3, 2x4, 5x3 user-defined cells implementing the sequence protocol (equal lengths) x every agent cell x 4 headings x 3 observation functions x 3 quarter turns: observations agree object by object',
                    required=['sequence_like_cells']))
