"""C09 -- objects are conserved: nothing is created, destroyed, duplicated or recoloured."""
import json

from hypothesis import strategies as st

from vgv import envs, gen, model as M, objs
from vgv.framework import Check, guarded
from vgv.objs import ACTIONS, HEADINGS

from gym_gridverse.envs.transition_functions import transition_with_copy
from gym_gridverse.rng import make_rng

RULE = ('non-trivial = PICK_N_DROP with a holdable object in front or something in hand, ACTUATE facing a box, '
        'front cell outside the grid, or an obstacle that can move.')
ASSUMPTIONS = ['door status is not part of object identity for conservation (status changes are C10)',
               'exact next-state membership is decided against the enumerated outcome set of the reference model when it has <= 3000 elements']


def run_chain(chain, sd, a, seed):
    fn = envs.mk_transition(chain)
    return objs.canon_state(transition_with_copy(fn, objs.build_state(sd), objs.action(a), rng=make_rng(seed)))


def scenery(d):
    """cells holding something that is neither floor, holdable nor a moving obstacle: position -> (type, colour)"""
    out = {}
    for p in M.positions(d):
        o = M.cell(d, p)
        if o != 'F' and o != 'M' and not M.holdable(o):
            out[p] = M._norm_status(o)
    return out


def check_conservation(ctx, sd, a, chain, nd, what):
    inv0, inv1 = M.inventory(sd), M.inventory(nd)
    ok = inv1 == inv0
    if not ok and a == 'ACTUATE' and 'actuate_box' in chain:
        ok = inv1 in M.inventories_after_box_opening(sd)
    if not ok:
        lost = dict(inv0 - inv1)
        made = dict(inv1 - inv0)
        ctx.fail(f'{what}: objects not conserved under {a} with chain {chain}: lost {lost}, created {made}', {'kind': 'conservation', 'action': a})
    # scenery never moves
    s0, s1 = scenery(sd), scenery(nd)
    held0 = sd['agent'][3]
    for p, o in s0.items():
        if s1.get(p) == o:
            continue
        if M.obj_type(M.cell(sd, p)) == 'Box' and a == 'ACTUATE' and 'actuate_box' in chain:
            continue  # opened (multiset already checked)
        ctx.fail(f'{what}: scenery {o} at {p} moved or vanished under {a} (now {M.cell(nd, p)})', {'kind': 'scenery', 'action': a})
    for p, o in s1.items():
        if s0.get(p) == o:
            continue
        src = M.cell(sd, p)
        if M.obj_type(src) == 'Box' and a == 'ACTUATE' and 'actuate_box' in chain:
            continue
        vacated = src == 'M' and 'move_obstacles' in chain and chain.index('move_obstacles') < chain.index('pickndrop') if 'pickndrop' in chain else False
        if a == 'PICK_N_DROP' and 'pickndrop' in chain and held0 != '_' and M._norm_status(held0) == o and (src == 'F' or M.holdable(src) or vacated):
            continue  # the (non-holdable) item in hand was put down on floor / swapped (the floor may have been vacated by an obstacle earlier in the chain)
        ctx.fail(f'{what}: scenery {o} appeared at {p} under {a} (was {src})', {'kind': 'scenery', 'action': a})


def nt_classes(sd, a, chain):
    cl = []
    f = M.front(sd)
    if a == 'PICK_N_DROP' and 'pickndrop' in chain:
        if not M.in_grid(sd, f):
            cl.append('pick_front_outside')
        elif M.holdable(M.cell(sd, f)):
            cl.append('pick_holdable_front' if sd['agent'][3] == '_' else 'swap')
        elif sd['agent'][3] != '_':
            cl.append('drop_on_floor' if M.cell(sd, f) == 'F' else 'drop_refused')
    if a == 'ACTUATE' and 'actuate_box' in chain and M.in_grid(sd, f) and M.obj_type(M.cell(sd, f)) == 'Box':
        cl.append('open_box')
    if 'move_obstacles' in chain and any(o == 'M' for r in sd['grid'] for o in r):
        cl.append('obstacles')
    return cl


SCENARIOS = ['random', 'random', 'pick', 'swap', 'drop', 'drop_refused', 'open_box', 'front_outside']


@st.composite
def strat_step(draw, tier):
    """scenario-driven: the interesting conjunctions (action x chain member x object in front x hand) are built, not hoped for"""
    sc = draw(st.sampled_from(SCENARIOS))
    space = draw(gen.space_s(must=('Floor',) if sc == 'random' else ('Floor', 'Key', 'Box')))
    sd = draw(gen.state_s(space, max_hw=6 if tier == 'quick' else 8, valid=draw(st.booleans())))
    chain = draw(gen.chain_s())
    a = draw(gen.action_s)
    if sc != 'random':
        sd = {'grid': [list(r) for r in sd['grid']], 'agent': list(sd['agent'])}
        inward = [h for h in HEADINGS if M.in_grid(sd, (sd['agent'][0] + M.FWD[h][0], sd['agent'][1] + M.FWD[h][1]))]
        outward = [h for h in HEADINGS if h not in inward]
        if sc == 'front_outside':
            if outward:
                sd['agent'][2] = draw(st.sampled_from(outward))
            a = draw(st.sampled_from(['PICK_N_DROP', 'ACTUATE']))
            if draw(st.booleans()):
                sd['agent'][3] = draw(gen.obj_s({'types': ['Key'], 'colors': space['colors']}, 0))
        elif inward:
            sd['agent'][2] = draw(st.sampled_from(inward))
            need = 'actuate_box' if sc == 'open_box' else 'pickndrop'
            a = 'ACTUATE' if sc == 'open_box' else 'PICK_N_DROP'
            kinds = {'pick': ('Key',), 'swap': ('Key',), 'drop': ('Floor',), 'open_box': ('Box',),
                     'drop_refused': tuple(t for t in space['types'] if t not in ('Floor', 'Key'))}[sc]
            sd = draw(gen.plant_front_s(sd, space, kinds))
            if sc == 'pick':
                sd['agent'][3] = '_'
            elif sc in ('swap', 'drop', 'drop_refused'):
                sd['agent'][3] = draw(gen.obj_s({'types': ['Key'] if draw(st.booleans()) else space['types'], 'colors': space['colors']}, 1))
            if need not in chain:
                chain = chain + [need]
    observe = None
    if draw(st.integers(0, 3)) == 0:
        f = draw(st.sampled_from(['partially_occluded', 'raytracing']))
        area = draw(gen.area_s(3, ymax_zero=True))
        if draw(st.booleans()):
            h, w = M.shape(sd)
            x = sd['agent'][1]
            if not M.blocks_movement(sd['grid'][h - 1][x]):
                sd = {'grid': [list(r) for r in sd['grid']], 'agent': [h - 1, x, 'F', sd['agent'][3]]}
                area = [[-(h - 1), 0], [-x, w - 1 - x]]       # the view that covers the grid exactly
        observe = {'f': f, 'area': area}
    return {'state': sd, 'action': a, 'chain': chain, 'seed': draw(gen.seed_s), 'observe': observe}


def oracle_step(case, ctx):
    sd, a, chain = case['state'], case['action'], case['chain']
    if case.get('observe'):
        # the agent looks at the world first; the very State that was observed is then stepped
        from vgv import obsutil
        S = objs.build_state(sd)
        guarded(ctx, 'observation', obsutil.observe, case['observe']['f'], S, case['observe']['area'])
        seen = objs.canon_state(S)
        if M.inventory(seen) != M.inventory(sd) or seen != sd:
            ctx.fail(f'observing ({case["observe"]["f"]}, area {case["observe"]["area"]}) changed the objects of the state: lost {dict(M.inventory(sd) - M.inventory(seen))}, '
                     f'created {dict(M.inventory(seen) - M.inventory(sd))}', {'kind': 'conservation', 'action': 'observe'})
        nd = objs.canon_state(guarded(ctx, f'chain {chain}', transition_with_copy, envs.mk_transition(chain), S, objs.action(a), rng=make_rng(case['seed'])))
    else:
        nd = guarded(ctx, f'chain {chain}', run_chain, chain, sd, a, case['seed'])
    check_conservation(ctx, sd, a, chain, nd, 'step')
    outs = M.step_outcomes(sd, a, chain)
    cl = nt_classes(sd, a, chain)
    if outs is not None:
        if json.dumps(nd, sort_keys=True) not in outs:
            det = len(outs) == 1
            exp = json.loads(next(iter(outs))) if det else None
            diff = ''
            if det:
                cells = [(p, M.cell(sd, p), M.cell(nd, p), M.cell(exp, p)) for p in M.positions(sd) if M.cell(nd, p) != M.cell(exp, p)]
                diff = f' agent {nd["agent"]} vs model {exp["agent"]}; cells (pos, before, got, model): {cells[:4]}'
            ctx.fail(f'next state under {a} with chain {chain} is not {"the" if det else "a"} state the reference model allows ({len(outs)} outcome(s)).{diff}',
                     {'kind': 'model_mismatch', 'action': a})
        cl.append('exact_model' if len(outs) == 1 else 'outcome_set')
    else:
        cl.append('invariants_only')
    if case.get('observe'):
        cl.append('observed_first')
    ctx.ev.case(case, nt=bool(set(cl) - {'exact_model', 'outcome_set', 'invariants_only', 'observed_first'}), classes=cl, key=[sd, a, chain])


# ------------------------------------------------------------------ exhaustive pick-and-drop table

FRONT_KINDS = ['F', 'W', 'E:NONE', 'E:RED', 'D:OPEN:RED', 'D:CLOSED:BLUE', 'D:LOCKED:YELLOW', 'K:GREEN', 'K:RED', 'M', 'B(F)', 'B(K:RED)', 'T:RED', 'N:BLUE', None]
HELD_KINDS = ['_', 'K:RED', 'K:BLUE', 'W', 'B(K:RED)', 'T:RED']


def enum_pick(tier, shard, nshards):
    i = 0
    for hd in HEADINGS:
        for fk in FRONT_KINDS:
            for held in HELD_KINDS:
                for a in ACTIONS:
                    for beyond in ('F', 'K:YELLOW'):
                        i += 1
                        if i % nshards == shard:
                            yield {'hd': hd, 'front': fk, 'held': held, 'a': a, 'beyond': beyond}


def oracle_pick(case, ctx):
    # the agent stands in a grid whose only neighbour in the faced direction is `front`
    # (None = the agent faces the edge); every other cell is `beyond` so that a wrap-around
    # or a wrong direction lands on something distinguishable
    hd, fk = case['hd'], case['front']
    if fk is None:
        h = w = 3
        grid = [[case['beyond']] * 3 for _ in range(3)]
        pos = {'F': (0, 1), 'B': (2, 1), 'L': (1, 0), 'R': (1, 2)}[hd]
        grid[pos[0]][pos[1]] = 'F'
    else:
        grid = [[case['beyond']] * 3 for _ in range(3)]
        pos = (1, 1)
        grid[1][1] = 'F'
        f = (1 + M.FWD[hd][0], 1 + M.FWD[hd][1])
        grid[f[0]][f[1]] = fk
    sd = {'grid': grid, 'agent': [pos[0], pos[1], hd, case['held']]}
    a = case['a']
    for chain in (['pickndrop'], ['move_agent', 'turn_agent', 'actuate_door', 'actuate_box', 'pickndrop']):
        nd = guarded(ctx, f'{chain}', run_chain, chain, sd, a, 0)
        exp = M.step_det(sd, a, chain)
        if nd != exp:
            cells = [(p, M.cell(sd, p), M.cell(nd, p), M.cell(exp, p)) for p in M.positions(sd) if M.cell(nd, p) != M.cell(exp, p)]
            ctx.fail(f'{chain}: {a} heading {hd} front {fk} holding {case["held"]}: got agent {nd["agent"]} model {exp["agent"]}; cells (pos,before,got,model) {cells[:4]}',
                     {'kind': 'pick_table', 'action': a})
        check_conservation(ctx, sd, a, chain, nd, 'table')
    nt = a == 'PICK_N_DROP' and (fk is None or M.holdable(fk) or case['held'] != '_')
    ctx.ev.case(case, nt=nt, classes=nt_classes(sd, a, ['pickndrop', 'actuate_box']))


# ------------------------------------------------------------------ user-defined holdable objects that carry data of their own

from gym_gridverse import grid_object as _go  # noqa: E402
from gym_gridverse.agent import Agent as _Agent  # noqa: E402
from gym_gridverse.geometry import Orientation as _Orientation, Position as _Position  # noqa: E402
from gym_gridverse.grid import Grid as _Grid  # noqa: E402
from gym_gridverse.state import State as _State  # noqa: E402


class VerifPouch(_go.GridObject):
    """holdable; like Box, its payload is not part of ==/hash (type, status, colour)"""
    state_index = 0
    color = _go.Color.NONE
    blocks_movement = False
    blocks_vision = False
    holdable = True

    def __init__(self, payload):
        self.payload = payload

    @classmethod
    def can_be_represented_in_state(cls):
        return False

    @classmethod
    def num_states(cls):
        return 1


class VerifPurse(VerifPouch):
    """a container-like holdable: it has a length, and it is empty (so it is falsy, as any empty Python container)"""

    def __init__(self, payload):
        super().__init__(payload)
        self.items = []

    def __len__(self):
        return len(self.items)


def enum_pouch(tier, shard, nshards):
    i = 0
    for hd in HEADINGS:
        for front in ('pouch', 'purse', 'key', 'floor', 'wall', 'edge'):
            for held in ('pouch', 'purse', 'key', 'none'):
                for a in ('PICK_N_DROP', 'ACTUATE', 'MOVE_FORWARD'):
                    for via_copy in (False, True):
                        i += 1
                        if i % nshards == shard:
                            yield {'hd': hd, 'front': front, 'held': held, 'a': a, 'via_copy': via_copy}


def oracle_pouch(case, ctx):
    """pick / drop / swap move the *very objects* (whatever data they carry); nothing is created, lost or left behind"""
    hd = case['hd']
    mk = {'pouch': lambda tag: VerifPouch(tag), 'purse': lambda tag: VerifPurse(tag), 'key': lambda tag: _go.Key(_go.Color.RED), 'floor': lambda tag: _go.Floor(), 'wall': lambda tag: _go.Wall(), 'none': lambda tag: None}
    grid = _Grid.from_shape((3, 3))
    pos = {'F': (0, 1), 'B': (2, 1), 'L': (1, 0), 'R': (1, 2)}[hd] if case['front'] == 'edge' else (1, 1)
    f = (pos[0] + M.FWD[hd][0], pos[1] + M.FWD[hd][1])
    front_obj = None
    if case['front'] != 'edge':
        front_obj = mk[case['front']]('in front')
        grid[f] = front_obj
    held_obj = mk[case['held']]('in hand')
    s = _State(grid, _Agent(_Position(*pos), objs.ori(hd), held_obj))
    fn = envs.mk_transition(['move_agent', 'turn_agent', 'actuate_door', 'actuate_box', 'pickndrop'])
    if case['via_copy']:
        n = guarded(ctx, 'transition_with_copy', transition_with_copy, fn, s, objs.action(case['a']), rng=make_rng(0))
    else:
        guarded(ctx, 'transition (in place)', fn, s, objs.action(case['a']), rng=make_rng(0))
        n = s
    tag = lambda o: (type(o).__name__, getattr(o, 'payload', None))  # noqa: E731
    got_front = tag(n.grid[f]) if case['front'] != 'edge' else None
    got_held = tag(n.agent.grid_object)
    exp_front = tag(front_obj) if front_obj is not None else None
    exp_held = tag(held_obj) if held_obj is not None else ('NoneGridObject', None)
    if case['a'] == 'PICK_N_DROP' and case['front'] in ('pouch', 'purse', 'key', 'floor'):
        holdable_front = case['front'] in ('pouch', 'purse', 'key')
        exp_front = tag(held_obj) if held_obj is not None else ('Floor', None)
        exp_held = tag(front_obj) if holdable_front else ('NoneGridObject', None)
    if (got_front, got_held) != (exp_front, exp_held):
        ctx.fail(f'{case["a"]} heading {hd} with {case["front"]} in front and {case["held"]} in hand ({"copy" if case["via_copy"] else "in place"}): '
                 f'front cell now {got_front}, hand now {got_held}; documented: front {exp_front}, hand {exp_held}', {'kind': 'pick_identity', 'action': case['a']})
    if not case['via_copy'] and case['a'] == 'PICK_N_DROP' and case['front'] in ('pouch', 'purse', 'key') and held_obj is not None:
        if n.grid[f] is not held_obj or n.agent.grid_object is not front_obj:
            ctx.fail(f'in-place swap of {case["held"]} (hand) and {case["front"]} (front) did not move the objects themselves', {'kind': 'pick_identity'})
    ctx.ev.case(case, nt=(case['a'] == 'PICK_N_DROP' and case['front'] != 'edge'), classes=['front:' + case['front'], 'held:' + case['held']])


# ------------------------------------------------------------------ histories of shipped environments


def strat_hist(tier):
    n = 200 if tier == 'quick' else 1000
    return st.fixed_dictionaries({
        'configs': st.one_of(st.just(envs.shipped_names()), st.lists(st.sampled_from(envs.shipped_names()), unique=True, min_size=1, max_size=3)),
        'seed': gen.seed_s,
        # bias towards interaction: indices are taken modulo the action-space size
        'actions': st.lists(st.sampled_from([0, 1, 2, 3, 4, 5, 6, 7, 7, 6, 0, 0]), min_size=5, max_size=n),
    })


def oracle_hist(case, ctx):
    for config in case['configs']:
        env = guarded(ctx, 'build', envs.build_shipped, config, case['seed'])
        chain = [t['name'] for t in envs.shipped_data(config)['transition_functions']]
        builtin = all(n in M.TRANSITIONS for n in chain)
        guarded(ctx, 'reset', env.reset)
        sd = objs.canon_state(env.state)
        inv = M.inventory(sd)
        nact = env.action_space.num_actions
        interactions = 0
        for i, ai in enumerate(case['actions']):
            a = env.action_space.int_to_action(ai % nact)
            r, t = guarded(ctx, f'step {a.name}', env.step, a)
            nd = objs.canon_state(env.state)
            if builtin:
                check_conservation(ctx, sd, a.name, chain, nd, f'{config} step {i}')
                if M.inventory(nd) != inv:
                    ctx.fail(f'{config}: inventory changed during the episode at step {i} ({a.name}): {dict(inv - M.inventory(nd))} -> {dict(M.inventory(nd) - inv)}',
                             {'kind': 'conservation', 'action': a.name})
            interactions += nd['grid'] != sd['grid'] or nd['agent'][3] != sd['agent'][3]
            sd = nd
            if t:
                guarded(ctx, 'reset', env.reset)
                sd = objs.canon_state(env.state)
                inv = M.inventory(sd)
        ctx.ev.case([config, case['seed'], case['actions']], nt=(interactions >= 1), classes=['cfg:' + config.replace('.yaml', '')] + (['grid_changed'] if interactions else []),
                    sample={'config': config, 'seed': case['seed'], 'steps': len(case['actions']), 'grid_or_hand_changes': interactions})


CHECKS = [
    Check('step_generated', oracle_step, strategy=strat_step, examples={'quick': 1500, 'thorough': 5000},
          rule='generated state x action (biased to PICK_N_DROP/ACTUATE) x chain x seed: multiset conservation up to box opening, scenery immobility, membership in the model outcome set (exact equality for deterministic chains)',
          required=['pick_holdable_front', 'swap', 'drop_on_floor', 'drop_refused', 'pick_front_outside', 'open_box', 'obstacles', 'exact_model', 'outcome_set', 'observed_first']),
    Check('pickndrop_table', oracle_pick, enumerate=enum_pick, shards={'quick': 4, 'thorough': 8}, exhaustive=True,
          rule='4 headings x 15 front kinds (every type/status, or the grid edge) x 6 held items x 8 actions x 2 backgrounds, against the model next state'),
    Check('payload_objects', oracle_pouch, enumerate=enum_pouch, shards={'quick': 2, 'thorough': 2}, exhaustive=True,
          rule='a user-defined holdable type whose payload is not part of == (like Box contents): 4 headings x 5 front kinds x 3 hands x 3 actions, in place and through the copy: the very objects move',
          required=['front:pouch', 'held:pouch']),
    Check('shipped_histories', oracle_hist, strategy=strat_hist, examples={'quick': 6, 'thorough': 20},
          rule='all 22 shipped configurations x seeds x <=200 (1000 thorough) actions: per-step conservation and constant inventory over each episode',
          required=['cfg:gv_keydoor.7x7', 'cfg:gv_dynamic_obstacles.7x7', 'grid_changed']),
]


from vgv import worldedit  # noqa: E402

CHECKS.append(worldedit.make_check('C09'))
