"""C08 -- agent kinematics: moves and turns do exactly what the action says."""
import itertools

from hypothesis import strategies as st

from vgv import envs, gen, model as M, objs
from vgv import prelude
from vgv.framework import Check, guarded
from vgv.objs import ACTIONS, HEADINGS

from gym_gridverse.envs.transition_functions import transition_function_registry as REG, transition_with_copy
from gym_gridverse.rng import make_rng

RULE = 'non-trivial = a move whose target is outside the grid or a movement-blocking object, or any pose-changing step.'
ASSUMPTIONS = ['the door status -> blocking relation is taken from the model table (open = passable) and compared with the real flag']

TARGET_KINDS = ['F', 'W', 'E:NONE', 'E:RED', 'D:OPEN:RED', 'D:CLOSED:BLUE', 'D:LOCKED:YELLOW', 'K:GREEN', 'M', 'B(F)', 'B(K:RED)', 'T:RED', 'N:BLUE']


def run_chain(chain, sd, a, seed=0):
    fn = envs.mk_transition(chain)
    return objs.canon_state(transition_with_copy(fn, objs.build_state(sd), objs.action(a), rng=make_rng(seed)))


def expected_pose_ok(ctx, sd, a, chain, nd, what):
    """pose of nd must be one the model allows"""
    outs = M.step_outcomes({'grid': sd['grid'], 'agent': sd['agent']}, a, [n for n in chain if n != 'move_obstacles'])
    # (move_obstacles never affects the pose; dropping it keeps the outcome set small)
    import json
    poses = {tuple(json.loads(o)['agent'][:3]) for o in outs}
    if tuple(nd['agent'][:3]) not in poses:
        ctx.fail(f'{what}: action {a} from pose {sd["agent"][:3]} gave pose {nd["agent"][:3]}, model allows {sorted(poses)} (chain {chain})',
                 {'kind': 'pose', 'action': a})


def classes_for(sd, a):
    cl = []
    if a in M.MOVE_TURNS:
        t = M.move_target(sd, a)
        if not M.in_grid(sd, t):
            cl.append('move_outside')
        elif M.blocks_movement(M.cell(sd, t)):
            cl.append('move_blocked')
        else:
            cl.append('move_free')
    elif a.startswith('TURN'):
        cl.append('turn')
    else:
        cl.append('other_action')
    return cl


# ------------------------------------------------------------------ (a) generated


@st.composite
def strat_gen(draw, tier):
    space = draw(gen.space_s())
    sd = draw(gen.state_s(space, max_hw=6 if tier == 'quick' else 9, valid=draw(st.booleans()), allow_grow=True))
    return {'state': sd, 'action': draw(gen.action_s), 'chain': draw(gen.chain_s()), 'seed': draw(gen.seed_s)}


def oracle_gen(case, ctx):
    prelude.door_first(ctx)
    sd, a, chain = case['state'], case['action'], case['chain']
    y, x, hd, held = sd['agent']
    # single functions
    nd = guarded(ctx, 'move_agent', run_chain, ['move_agent'], sd, a)
    exp = M.step_det(sd, a, ['move_agent'])
    if nd != exp:
        ctx.fail(f'move_agent: {a} from {sd["agent"][:3]} -> {nd["agent"][:3]}, model {exp["agent"][:3]}', {'kind': 'move', 'action': a})
    nd = guarded(ctx, 'turn_agent', run_chain, ['turn_agent'], sd, a)
    exp = M.step_det(sd, a, ['turn_agent'])
    if nd != exp:
        ctx.fail(f'turn_agent: {a} from {sd["agent"][:3]} -> {nd["agent"][:3]}, model {exp["agent"][:3]}', {'kind': 'turn', 'action': a})
    for ch in (['move_agent', 'turn_agent'], ['turn_agent', 'move_agent']):
        nd = guarded(ctx, 'chain', run_chain, ch, sd, a)
        exp = M.step_det(sd, a, ch)
        if nd != exp:
            ctx.fail(f'{ch}: {a} from {sd["agent"][:3]} -> {nd["agent"][:3]}, model {exp["agent"][:3]}', {'kind': 'move', 'action': a})
    # turn laws through the real transition
    cur = sd
    for t in ('TURN_LEFT', 'TURN_RIGHT'):
        cur = run_chain(['turn_agent'], cur, t)
    if cur != sd:
        ctx.fail('TURN_LEFT then TURN_RIGHT does not restore the pose', {'kind': 'turn'})
    for t in ('TURN_LEFT', 'TURN_RIGHT'):
        cur = sd
        seen = []
        for _ in range(4):
            cur = run_chain(['turn_agent'], cur, t)
            seen.append(cur['agent'][2])
            if cur['agent'][:2] != sd['agent'][:2]:
                ctx.fail('a turn displaced the agent', {'kind': 'turn'})
        if cur != sd or len(set(seen)) != 4:
            ctx.fail(f'four {t} do not cycle through all headings back to the start: {seen}', {'kind': 'turn'})
    # random composition: pose must be one the model allows
    nd = guarded(ctx, f'chain {chain}', run_chain, chain, sd, a, case['seed'])
    expected_pose_ok(ctx, sd, a, chain, nd, 'composition')
    # door flag relation (C10 anchors): blocking unless open
    for row in sd['grid']:
        for o in row:
            real = objs.build_obj(o).blocks_movement
            if bool(real) != M.blocks_movement(o):
                ctx.fail(f'blocks_movement({o}) = {real}, documented {M.blocks_movement(o)}', {'kind': 'flag'})
    cl = classes_for(sd, a)
    if max(M.shape(sd)) >= 40:
        cl = cl + ['long_world']
    ctx.ev.case(case, nt=('move_outside' in cl or 'move_blocked' in cl or nd['agent'][:3] != sd['agent'][:3]), classes=cl,
                key=[sd, a, chain], sample=(dict(case, state={'shape': list(M.shape(sd)), 'agent': sd['agent'], 'top_rows': sd['grid'][:2]}) if max(M.shape(sd)) >= 40 else None))


# ------------------------------------------------------------------ (b) exhaustive table


def enum_table(tier, shard, nshards):
    i = 0
    for (h, w) in [(1, 1), (1, 3), (3, 1), (3, 3), (2, 2)]:
        for y in range(h):
            for x in range(w):
                for hd in HEADINGS:
                    for a in ACTIONS:
                        for k in TARGET_KINDS:
                            i += 1
                            if i % nshards == shard:
                                yield {'h': h, 'w': w, 'y': y, 'x': x, 'hd': hd, 'a': a, 'kind': k}


def oracle_table(case, ctx):
    h, w = case['h'], case['w']
    # every cell other than the agent's holds the target kind: whatever the commanded
    # direction, the target is that kind or outside the grid
    grid = [[case['kind'] for _ in range(w)] for _ in range(h)]
    grid[case['y']][case['x']] = 'F'
    sd = {'grid': grid, 'agent': [case['y'], case['x'], case['hd'], '_']}
    a = case['a']
    for ch in (['move_agent'], ['move_agent', 'turn_agent'], ['move_agent', 'turn_agent', 'actuate_door', 'actuate_box', 'pickndrop']):
        nd = guarded(ctx, f'{ch}', run_chain, ch, sd, a)
        exp = M.step_det(sd, a, ch)
        if nd['agent'][:3] != exp['agent'][:3]:
            ctx.fail(f'{ch}: {a} heading {case["hd"]} at ({case["y"]},{case["x"]}) of {h}x{w} towards {case["kind"]}: pose {nd["agent"][:3]}, model {exp["agent"][:3]}',
                     {'kind': 'move', 'action': a})
    cl = classes_for(sd, a)
    ctx.ev.case(case, nt=('move_outside' in cl or 'move_blocked' in cl), classes=cl)


# ------------------------------------------------------------------ (c) histories


@st.composite
def strat_hist(draw, tier):
    n = 40 if tier == 'quick' else 300
    k = draw(st.integers(0, 3))
    if k == 0:
        # door dance: open a door by ACTUATE (in-place status change), then walk through it and back
        space = draw(gen.space_s(must=('Floor', 'Door', 'Key')))
        sd = draw(gen.state_s(space, min_hw=3, max_hw=6, valid=True))
        y, x = sd['agent'][0], sd['agent'][1]
        inward = [h for h in HEADINGS if M.in_grid(sd, (y + 2 * M.FWD[h][0], x + 2 * M.FWD[h][1]))] or \
                 [h for h in HEADINGS if M.in_grid(sd, (y + M.FWD[h][0], x + M.FWD[h][1]))]
        sd['agent'][2] = draw(st.sampled_from(inward))
        f = M.front(sd)
        col = draw(st.sampled_from(space['colors']))
        status = draw(st.sampled_from(['CLOSED', 'LOCKED', 'OPEN']))
        sd['grid'][f[0]][f[1]] = f'D:{status}:{col}'
        sd['agent'][3] = f'K:{col}' if draw(st.integers(0, 3)) else '_'
        acts = ['ACTUATE', 'MOVE_FORWARD', 'MOVE_FORWARD', 'MOVE_BACKWARD', 'MOVE_BACKWARD', 'MOVE_FORWARD'] + draw(st.lists(gen.action_s, max_size=10))
        return {'kind': 'generated', 'state': sd, 'chain': ['move_agent', 'turn_agent', 'actuate_door', 'pickndrop'], 'seed': draw(gen.seed_s), 'actions': acts}
    if k == 1:
        return {'kind': 'shipped', 'config': draw(st.sampled_from([c for c in envs.shipped_names() if 'keydoor' in c])), 'seed': draw(gen.seed_s), 'guided': True,
                'actions': draw(st.lists(st.integers(0, 7), min_size=1, max_size=n))}
    if draw(st.booleans()):
        space = draw(gen.space_s())
        sd = draw(gen.state_s(space, min_hw=2, max_hw=6, valid=True))
        return {'kind': 'generated', 'state': sd, 'chain': draw(gen.chain_s()), 'seed': draw(gen.seed_s),
                'actions': draw(st.lists(gen.action_s, min_size=1, max_size=n))}
    return {'kind': 'shipped', 'configs': draw(st.one_of(st.just(envs.shipped_names()), st.lists(st.sampled_from(envs.shipped_names()), unique=True, min_size=1, max_size=3))),
            'seed': draw(gen.seed_s), 'actions': draw(st.lists(st.integers(0, 7), min_size=1, max_size=n))}


def _valid_pose(ctx, sd, real_state, what):
    y, x = sd['agent'][0], sd['agent'][1]
    if not M.in_grid(sd, (y, x)):
        ctx.fail(f'{what}: agent outside the grid at {(y, x)}', {'kind': 'history_outside'})
    # independent oracle: the documented flag of the cell (status OPEN = passable), not the object's own attribute
    if M.blocks_movement(M.cell(sd, (y, x))) or real_state.grid[y, x].blocks_movement:
        ctx.fail(f'{what}: agent on a movement-blocking cell {M.cell(sd, (y, x))} at {(y, x)}', {'kind': 'history_blocked'})


def oracle_hist(case, ctx):
    prelude.door_first(ctx)
    if case['kind'] == 'shipped' and 'configs' in case:
        for k, c in enumerate(case['configs']):
            _hist(dict(case, config=c, seed=case['seed'] + k), ctx)
    else:
        _hist(case, ctx)


def _hist(case, ctx):
    moved = 0
    blocked = 0
    if case['kind'] == 'generated':
        fn = envs.mk_transition(case['chain'])
        rng = make_rng(case['seed'])
        s = objs.build_state(case['state'])
        sd = case['state']
        for i, a in enumerate(case['actions']):
            s = guarded(ctx, f'step {a}', transition_with_copy, fn, s, objs.action(a), rng=rng)
            nd = objs.canon_state(s)
            _valid_pose(ctx, nd, s, f'chain {case["chain"]} step {i} ({a})')
            expected_pose_ok(ctx, sd, a, case['chain'], nd, f'step {i}')
            cl = classes_for(sd, a)
            blocked += ('move_outside' in cl or 'move_blocked' in cl)
            moved += nd['agent'][:3] != sd['agent'][:3]
            sd = nd
        label = 'generated'
    else:
        env = guarded(ctx, 'build', envs.build_shipped, case['config'], case['seed'])
        guarded(ctx, 'reset', env.reset)
        sd = objs.canon_state(env.state)
        _valid_pose(ctx, sd, env.state, f'{case["config"]} reset')
        nact = env.action_space.num_actions
        chain = [t['name'] for t in envs.shipped_data(case['config'])['transition_functions']]
        builtin = all(n in M.TRANSITIONS for n in chain)
        # "the action" is the one the configuration lists at that index, whichever interface executes it
        data = envs.shipped_data(case['config'])
        listed = list(data['action_space']) if 'action_space' in data else list(ACTIONS)
        acts = [objs.action(listed[ai % nact]) for ai in case['actions']]
        if case.get('guided'):
            acts = [objs.action(a) for a in (M.plan_keydoor(sd) or [])] + acts
        via_gym = case['seed'] % 2 == 1
        if via_gym:
            import gym
            from gym_gridverse.gym import STRING_TO_YAML_FILE, GymEnvironment
            from gym_gridverse.outer_env import OuterEnv
            from gym_gridverse.representations.observation_representations import make_observation_representation
            ids = {v: k for k, v in STRING_TO_YAML_FILE.items()}
            if case['config'] in ids and case['seed'] % 4 == 1:
                # through the registered id: the environment users actually get; "action i" is the i-th action of *its* action space
                genv = gym.make(ids[case['config']], disable_env_checker=True).unwrapped
                env = genv.outer_env.inner_env
                env.set_seed(case['seed'])
                env.reset()
                sd = objs.canon_state(env.state)
                listed = [x.name for x in env.action_space.actions]
                nact = len(listed)
                acts = [objs.action(listed[ai % nact]) for ai in case['actions']]
            else:
                if case['seed'] % 4 == 3:
                    # the same configuration with its action list in the opposite order: index i is the i-th action *as listed*
                    import copy
                    from gym_gridverse.envs.yaml.factory import factory_env_from_data
                    data2 = copy.deepcopy(data)
                    data2['action_space'] = listed[::-1]
                    env = guarded(ctx, 'build (action list reversed)', factory_env_from_data, data2)
                    env.set_seed(case['seed'])
                    guarded(ctx, 'reset', env.reset)
                    sd = objs.canon_state(env.state)
                    listed = listed[::-1]
                    acts = [objs.action(listed[ai % nact]) for ai in case['actions']]
                genv = GymEnvironment(OuterEnv(env, observation_representation=make_observation_representation('default', env.observation_space)))
        for i, a in enumerate(acts):
            if via_gym:
                _, r, t, _ = guarded(ctx, f'gym step {listed.index(a.name)} ({a.name})', genv.step, listed.index(a.name))
            else:
                r, t = guarded(ctx, f'step {a.name}', env.step, a)
            nd = objs.canon_state(env.state)
            _valid_pose(ctx, nd, env.state, f'{case["config"]} step {i} ({a.name})')
            if builtin:
                expected_pose_ok(ctx, sd, a.name, chain, nd, f'{case["config"]} step {i}')
            cl = classes_for(sd, a.name)
            blocked += ('move_outside' in cl or 'move_blocked' in cl)
            moved += nd['agent'][:3] != sd['agent'][:3]
            sd = nd
            if t:
                guarded(ctx, 'reset', env.reset)
                sd = objs.canon_state(env.state)
                _valid_pose(ctx, sd, env.state, f'{case["config"]} reset')
        label = 'shipped_via_gym' if via_gym else 'shipped'
    ctx.ev.case({k: v for k, v in case.items() if k != 'configs'}, nt=(moved >= 2 and blocked >= 1), classes=[label])


CHECKS = [
    Check('pose_generated', oracle_gen, strategy=strat_gen, examples={'quick': 400, 'thorough': 5000}, shards={'quick': 3, 'thorough': 16},
          rule='generated state (one in sixteen tiled to a long world with a dimension of 40..300) x action against move_agent, turn_agent, both chains and a random composition; turn laws (L then R, four equal turns)',
          required=['move_outside', 'move_blocked', 'move_free', 'turn', 'long_world']),
    Check('target_table', oracle_table, enumerate=enum_table, shards={'quick': 4, 'thorough': 8}, exhaustive=True,
          rule='grids 1x1,1x3,3x1,2x2,3x3 x every agent cell x 4 headings x 8 actions x 13 target kinds (every type and door status), target outside the grid on every side'),
    Check('histories', oracle_hist, strategy=strat_hist, examples={'quick': 27, 'thorough': 300}, shards={'quick': 3, 'thorough': 16},
          rule='valid generated initial states x random composition, and resets of the shipped configurations, x <= 40 (300 thorough) actions: agent inside the grid and on a non-blocking cell after every step',
          required=['generated', 'shipped', 'shipped_via_gym']),
]


from vgv import worldedit  # noqa: E402

CHECKS.append(worldedit.make_check('C08'))


# ------------------------------------------------------------------ every cell of a very wide / very tall world

SWEEP_LENGTHS = {'quick': [1030, 1100], 'thorough': [1030, 1100, 2050, 2100, 4100, 65600]}


def enum_sweep(tier, shard, nshards):
    i = 0
    for L in SWEEP_LENGTHS[tier]:
        for tall in (False, True):
            for hd in HEADINGS:
                i += 1
                if i % nshards == shard:
                    yield {'L': L, 'tall': tall, 'heading': hd}


def oracle_sweep(case, ctx):
    """one world of 2 x L (or L x 2) cells with a sparse wall pattern; the agent is put on every free cell in turn (in place, as its
    owner may) and moved in place: displaced by exactly one cell in the commanded direction iff the target is inside and free.  Anything
    remembered per coordinate must be remembered under the right coordinate, however large."""
    from gym_gridverse.geometry import Position
    L, hd = case['L'], case['heading']
    h, w = (L, 2) if case['tall'] else (2, L)
    wall = lambda y, x: (x * 7 + y * 3) % 11 == 0  # noqa: E731
    rows = [['W' if wall(y, x) else 'F' for x in range(w)] for y in range(h)]
    s = objs.build_state({'grid': rows, 'agent': [0, 0, hd, '_']})
    move = REG['move_agent']
    s.agent.orientation = objs.ori(hd)
    bad = 0
    for a in ('MOVE_FORWARD', 'MOVE_LEFT'):
        A = objs.action(a)
        dy, dx = M.FWD[M.turn(hd, M.MOVE_TURNS[a])]
        for y in range(h):
            for x in range(w):
                if rows[y][x] == 'W':
                    continue
                s.agent.position = Position(y, x)
                move(s, A)
                ty, tx = y + dy, x + dx
                exp = (ty, tx) if 0 <= ty < h and 0 <= tx < w and rows[ty][tx] != 'W' else (y, x)
                got = (s.agent.position.y, s.agent.position.x)
                if got != exp:
                    bad += 1
                    ctx.fail(f'{h}x{w} world: {a} from {(y, x)} heading {hd} ends at {got}, expected {exp} (target cell {"outside" if not (0 <= ty < h and 0 <= tx < w) else rows[ty][tx]})',
                             {'kind': 'kinematics', 'aspect': 'coordinate_sweep'})
    ctx.ev.case(case, nt=True, classes=[f'length:{L}'])


CHECKS.append(Check('coordinate_sweep', oracle_sweep, enumerate=enum_sweep, shards={'quick': 16, 'thorough': 16}, exhaustive=True,
                    rule='worlds of 2 x L and L x 2 cells (L = 1030, 1100; thorough also 2050, 2100, 4100, 65600) with a sparse wall pattern: the agent on every free cell x 4 headings x forward/left move, in place',
                    required=['length:1030', 'length:1100']))


# ------------------------------------------------------------------ user-defined types whose instances differ in whether they block


_GATES = [0]


def _gate_init(self, lowered=False):
    if lowered:
        self.blocks_movement = False


def make_gate():
    """fresh class per case (importable by name, so that copies through pickle work): `blocks_movement` is set per instance over a
    class-level default (the idiom the library uses for colours)"""
    from gym_gridverse import grid_object as go
    _GATES[0] += 1
    name = f'VerifGate{_GATES[0]}'
    cls = type(name, (go.GridObject,), {
        'state_index': 0, 'color': go.Color.NONE, 'blocks_movement': True, 'blocks_vision': False, 'holdable': False, '__init__': _gate_init,
        'can_be_represented_in_state': classmethod(lambda c: False), 'num_states': classmethod(lambda c: 1), '__module__': __name__, '__qualname__': name})
    globals()[name] = cls
    return cls


def enum_gate(tier, shard, nshards):
    i = 0
    for first_lowered in (True, False):
        for hd in HEADINGS:
            for via in ('in_place', 'copy'):
                i += 1
                if i % nshards == shard:
                    yield {'first_lowered': first_lowered, 'heading': hd, 'via': via}


def oracle_gate(case, ctx):
    """the agent walks towards a gate of one kind, then (elsewhere) towards a gate of the other kind: it enters exactly the lowered ones.
    Whatever the library remembers about a *class* must not be taken from the first instance it met."""
    from gym_gridverse.agent import Agent
    from gym_gridverse.geometry import Position
    from gym_gridverse.grid import Grid
    from gym_gridverse.state import State
    Gate = make_gate()
    hd = case['heading']
    move = REG['move_agent']
    for k, lowered in enumerate([case['first_lowered'], not case['first_lowered'], case['first_lowered']]):
        grid = Grid.from_shape((3, 3))
        f = (1 + M.FWD[hd][0], 1 + M.FWD[hd][1])
        grid[Position(*f)] = Gate(lowered)
        s = State(grid, Agent(Position(1, 1), objs.ori(hd), None))
        if case['via'] == 'copy':
            n = guarded(ctx, 'transition_with_copy', transition_with_copy, move, s, objs.action('MOVE_FORWARD'), rng=make_rng(0))
        else:
            guarded(ctx, 'move_agent', move, s, objs.action('MOVE_FORWARD'))
            n = s
        got = (n.agent.position.y, n.agent.position.x)
        exp = f if lowered else (1, 1)
        if got != exp:
            ctx.fail(f'MOVE_FORWARD heading {hd} towards a {"lowered (free)" if lowered else "raised (blocking)"} gate of a user-defined type (instance number {k + 1} of its class met in this case): '
                     f'agent at {got}, expected {exp}', {'kind': 'kinematics', 'aspect': 'per_instance_blocking'})
    ctx.ev.case(case, nt=True, classes=['first_gate:' + ('lowered' if case['first_lowered'] else 'raised')])


CHECKS.append(Check('custom_blocking', oracle_gate, enumerate=enum_gate, shards={'quick': 4, 'thorough': 4}, exhaustive=True,
                    rule='a user-defined type whose instances set blocks_movement individually: free / blocking / free and blocking / free / blocking instances met in turn x 4 headings, in place and through the copy',
                    required=['first_gate:lowered', 'first_gate:raised']))
