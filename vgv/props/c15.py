"""C15 -- numeric representations always lie inside their declared spaces."""
import numpy as np
from hypothesis import strategies as st

from vgv import configs, envs, gen, model as M, objs, reps
from vgv.framework import Check, guarded

import gym
from gym_gridverse.gym import GymEnvironment, GymStateWrapper, outer_space_to_gym_space
from gym_gridverse.outer_env import OuterEnv
from gym_gridverse.representations.observation_representations import make_observation_representation
from gym_gridverse.representations.spaces import SpaceType
from gym_gridverse.representations.state_representations import make_state_representation

RULE = ('non-trivial = the member contains the highest type index of its space, a locked door (highest status), the highest colour, '
        'or the agent in a corner (normalised pose +-1) / non-square grid; distinct by (space, shape, member, representation).')
ASSUMPTIONS = ['state spaces contain only types that can be represented in a state (no Box, as documented); grid shapes >= 2x2; view shapes of odd width']

STATE_KEYS = ['agent', 'agent_id_grid', 'grid', 'item']
OBS_KEYS = ['agent_id_grid', 'grid', 'item']


def check_in_space(ctx, what, space_dict, arrays, keys):
    """key by key: declared Space.contains, our own shape/dtype/bounds check, and the gym Box/Dict"""
    sig = {'kind': 'out_of_space'}
    if sorted(arrays) != sorted(space_dict) or not set(keys) <= set(arrays):
        ctx.fail(f'{what}: converted keys {sorted(arrays)} do not match the declared space keys {sorted(space_dict)} (documented keys {keys})', sig)
    keys = sorted(arrays)
    gspace = outer_space_to_gym_space(space_dict)
    for k in keys:
        a, sp = arrays[k], space_dict[k]
        if not isinstance(a, np.ndarray):
            ctx.fail(f'{what}[{k}] is not an ndarray', sig)
        if a.shape != sp.lower_bound.shape or a.shape != sp.upper_bound.shape:
            ctx.fail(f'{what}[{k}]: shape {a.shape} != declared {sp.lower_bound.shape}', sig)
        want_float = sp.space_type is SpaceType.CONTINUOUS
        if (a.dtype.kind == 'f') != want_float or a.dtype.kind not in 'fiu':
            ctx.fail(f'{what}[{k}]: dtype {a.dtype} does not fit the declared {sp.space_type.name} space', sig)
        lo, hi = np.asarray(sp.lower_bound), np.asarray(sp.upper_bound)
        bad = np.argwhere((a < lo) | (a > hi))
        if len(bad):
            i = tuple(int(v) for v in bad[0])
            ctx.fail(f'{what}[{k}] index {list(i)}: value {a[i]} outside declared bounds [{lo[i]}, {hi[i]}]', sig)
        if not sp.contains(a):
            ctx.fail(f'{what}[{k}]: Space.contains rejects the converted array', sig)
        if not gspace[k].contains(a):
            ctx.fail(f'{what}[{k}]: the gym Box (low {gspace[k].low.min()}, high {gspace[k].high.max()}, dtype {gspace[k].dtype}) rejects the converted array (dtype {a.dtype})', sig)
    if not gspace.contains(arrays):
        ctx.fail(f'{what}: the gym Dict space rejects the converted dictionary', sig)


# ------------------------------------------------------------------ (a) generated members


@st.composite
def strat_member(draw, tier):
    kind = draw(st.sampled_from(['state', 'obs']))
    space = draw(gen.space_s(must=(), allow_box=(kind == 'obs')))
    if not space['types']:
        space['types'] = ['Floor']
    m = 6 if tier == 'quick' else 8
    if kind == 'state':
        shape = (draw(st.integers(2, m)), draw(st.integers(2, m)))
    else:
        shape = (draw(st.integers(1, m)), draw(st.sampled_from([1, 3, 5, 7])))
    d = draw(gen.state_s(space, shape=shape, floor_weight=0, depth=1))
    d = {'grid': [list(r) for r in d['grid']], 'agent': list(d['agent'])}
    if draw(st.integers(0, 5)) == 0:
        # a large member (positions past 127 / 255) tiled from the small one
        shape = draw(gen.big_shape_s(kind))
        d = gen.grow(d, *shape)
        d['agent'][0], d['agent'][1] = draw(st.sampled_from([0, shape[0] - 1, shape[0] // 2])), draw(st.sampled_from([0, shape[1] - 1, shape[1] // 2]))
    # by construction: make sure the extremes occur (highest type, locked door, highest colour, corners)
    ex = reps.all_objects(space, kind)
    k = draw(st.integers(0, 3))
    if k:
        ncells = shape[0] * shape[1]
        picks = draw(st.lists(st.sampled_from(ex), min_size=1, max_size=min(ncells, 6)))
        n = min(ncells, len(picks) + 2)
        where = draw(st.lists(st.tuples(st.integers(0, shape[0] - 1), st.integers(0, shape[1] - 1)), min_size=n, max_size=n, unique=True))
        for (y, x), o in zip(where, picks + [ex[-1], ex[len(ex) // 2]]):
            d['grid'][y][x] = o
    if draw(st.booleans()):
        held_pool = [o for o in ex if o != 'H']
        d['agent'][3] = draw(st.sampled_from(held_pool + ['_']))
    if kind == 'obs':
        d['agent'][2] = 'F'
        if draw(st.booleans()):
            d['agent'][0], d['agent'][1] = shape[0] - 1, shape[1] // 2
    elif draw(st.booleans()):
        d['agent'][0] = draw(st.sampled_from([0, shape[0] - 1]))
        d['agent'][1] = draw(st.sampled_from([0, shape[1] - 1]))
    return {'kind': kind, 'space': space, 'member': d}


def oracle_member(case, ctx):
    kind, space, d = case['kind'], case['space'], case['member']
    shape = M.shape(d)
    ok_model = M.state_in_space(d, shape, space['types']) if kind == 'state' else M.obs_in_space(d, shape, space['types'], space['colors'])
    assert ok_model, 'generator produced a non-member'
    keys = STATE_KEYS if kind == 'state' else OBS_KEYS
    for name in reps.NAMES:
        rep = guarded(ctx, f'make_{kind}_representation({name})', reps.make_rep, kind, name, shape, space)
        arrays = guarded(ctx, f'{kind}/{name}.convert', reps.convert, kind, rep, d)
        check_in_space(ctx, f'{kind}/{name} {shape} types {space["types"]} colours {space["colors"]}', rep.space, arrays, keys)
    at_gym = kind == 'state' and max(shape) <= 12 and 'Hidden' not in space['types'] and 'NoneGridObject' not in space['types']
    with_sibling = at_gym and gym_layer(ctx, case)
    objs_in = [o for r in d['grid'] for o in r] + [d['agent'][3]]
    tmax = max(M.BUILTIN_TYPE_ORDER.index(t) for t in space['types'])
    cmax = max(M.COLOR_VALUE[c] for c in space['colors'])
    cl = [kind]
    if any(o != '_' and M.BUILTIN_TYPE_ORDER.index(M.obj_type(o)) == tmax for o in objs_in):
        cl.append('max_type')
    if any(o.startswith('D:LOCKED') for o in objs_in):
        cl.append('locked_door')
    if cmax and any(M.COLOR_VALUE[M.color_of(o)] == cmax for o in objs_in):
        cl.append('max_colour')
    if d['agent'][0] in (0, shape[0] - 1) and d['agent'][1] in (0, shape[1] - 1):
        cl.append('agent_corner')
    if shape[0] != shape[1]:
        cl.append('nonsquare')
    if shape[1] > shape[0] and d['agent'][1] >= shape[0]:
        cl.append('agent_x>=height')
    if max(shape) >= 127:
        cl.append('long_grid')
    if at_gym:
        cl.append('gym_layer')
    if with_sibling:
        cl.append('gym_layer_after_sibling_space')
    ctx.ev.case(case, nt=len(cl) > 1, classes=cl, sample=({'kind': kind, 'space': space, 'member': {'shape': list(shape), 'agent': d['agent'], 'top_rows': d['grid'][:2]}} if max(shape) > 12 else None))


def sibling_space(space):
    """the same space with one type below the highest toggled (Door first): same shape, colours and highest type index, other statuses"""
    order = M.BUILTIN_TYPE_ORDER
    ts = list(space['types'])
    tmax = max(order.index(t) for t in ts)
    for cand in ['Door', 'Key', 'Wall', 'Floor', 'Exit', 'MovingObstacle', 'Telepod']:
        if order.index(cand) < tmax:
            ts = [t for t in ts if t != cand] if cand in ts else ts + [cand]
            return {'types': ts, 'colors': list(space['colors'])}
    return None


GYM_COMP = {'chain': ['move_agent'], 'rewards': [{'name': 'living_reward'}], 'term': {'name': 'reach_exit'}, 'obs': 'fully_transparent', 'view': [3, 3]}


def gym_layer(ctx, case):
    """the member as the state of an environment behind OuterEnv and GymEnvironment: what the adapter hands out lies inside the spaces
    the adapter advertises -- whether the representation was given to the constructor or chosen with the setters, and whatever
    other environments (here: one over a sibling space of the same shape) were configured earlier in the process"""
    space, d = case['space'], case['member']
    shape = M.shape(d)
    sib = sibling_space(space)
    worlds = []
    if sib is not None:
        ex = reps.all_objects(sib, 'state')
        g = [[ex[(y * shape[1] + x) % len(ex)] for x in range(shape[1])] for y in range(shape[0])]
        worlds.append((sib, {'grid': g, 'agent': [0, 0, 'F', '_']}, 'sibling space'))
    worlds.append((space, d, 'member'))
    for k, name in enumerate(reps.NAMES):
        other = reps.NAMES[(k + 1) % 3]
        for route in ('constructor', 'setters'):
            for sp, world, label in worlds:
                inner = guarded(ctx, 'GridWorld', envs.mk_env, sp, shape, GYM_COMP, reset_state=world)
                first = name if route == 'constructor' else other
                outer = OuterEnv(inner, state_representation=make_state_representation(first, inner.state_space),
                                 observation_representation=make_observation_representation(first, inner.observation_space))
                env = GymEnvironment(outer)
                if route == 'setters':
                    guarded(ctx, 'set_state_representation', env.set_state_representation, name)
                    guarded(ctx, 'set_observation_representation', env.set_observation_representation, name)
                obs = guarded(ctx, 'gym reset', env.reset)
                st_ = env.state
                what = f'gym layer [{name} via {route}] {label} {shape} types {sp["types"]} colours {sp["colors"]}'
                if not env.state_space.contains(st_):
                    bad = [q for q in st_ if not env.state_space[q].contains(st_[q])]
                    ctx.fail(f'{what}: state outside the advertised gym state_space (keys {bad})', {'kind': 'gym_space'})
                if not env.observation_space.contains(obs):
                    bad = [q for q in obs if not env.observation_space[q].contains(obs[q])]
                    ctx.fail(f'{what}: observation outside the advertised gym observation_space (keys {bad})', {'kind': 'gym_space'})
                check_in_space(ctx, what + ' state', outer.state_representation.space, st_, STATE_KEYS)
                check_in_space(ctx, what + ' observation', outer.observation_representation.space, obs, OBS_KEYS)
    return sib is not None


# ------------------------------------------------------------------ (b) every object of a space in the item channel and in a cell


def enum_objects(tier, shard, nshards):
    import itertools
    types = gen.GRID_TYPES
    colsets = [[], ['YELLOW'], ['RED', 'BLUE'], ['RED', 'GREEN', 'BLUE', 'YELLOW']] if tier == 'quick' else \
        [list(c) for k in range(5) for c in itertools.combinations(['RED', 'GREEN', 'BLUE', 'YELLOW'], k)]
    i = 0
    for bits in itertools.product([0, 1], repeat=len(types)):
        ts = [t for t, b in zip(types, bits) if b]
        if not ts:
            continue
        for cs in colsets:
            i += 1
            if i % nshards == shard:
                yield {'types': ts, 'colors': ['NONE'] + cs}


def oracle_objects(case, ctx):
    space = case
    for kind in ('state', 'obs'):
        if kind == 'state' and 'Box' in space['types']:
            continue
        shape = (2, 3) if kind == 'state' else (1, 3)
        keys = STATE_KEYS if kind == 'state' else OBS_KEYS
        ex = reps.all_objects(space, kind)
        for name in reps.NAMES:
            rep = guarded(ctx, f'make_{kind}_representation({name})', reps.make_rep, kind, name, shape, space)
            fill = ex[0]
            for o in ex:
                d = {'grid': [[fill] * shape[1] for _ in range(shape[0])], 'agent': [shape[0] - 1, shape[1] // 2, 'F', o if o != 'H' else '_']}
                d['grid'][0][shape[1] - 1] = o
                arrays = guarded(ctx, f'{kind}/{name}.convert', reps.convert, kind, rep, d)
                check_in_space(ctx, f'{kind}/{name} object {o} types {space["types"]} colours {space["colors"]}', rep.space, arrays, keys)
    ctx.ev.case(case, nt=(len(space['types']) >= 2), classes=['space'])


# ------------------------------------------------------------------ (c) trajectories of shipped (and perturbed, non-square) configurations


def strat_hist(tier):
    return st.fixed_dictionaries({
        'cfgs': st.one_of(st.just([{'base': n, 'mods': {}} for n in envs.shipped_names()]), st.lists(configs.config_s(), min_size=1, max_size=3)),
        'seed': gen.seed_s, 'actions': st.lists(st.integers(0, 7), min_size=5, max_size=30 if tier == 'quick' else 120),
    })


def registry_pair(case, ctx, cfg):
    """two instances of one registered id are independent: reconfiguring one leaves the other inside its advertised spaces"""
    from gym_gridverse.gym import STRING_TO_YAML_FILE
    ids = {v: k for k, v in STRING_TO_YAML_FILE.items()}
    if cfg['mods'] or cfg['base'] not in ids:
        return
    for k, name in enumerate(reps.NAMES):
        other = reps.NAMES[(k + 1) % 3]
        env = guarded(ctx, 'gym.make', gym.make, ids[cfg['base']], disable_env_checker=True).unwrapped
        env.outer_env.inner_env.set_seed(case['seed'])
        env.set_observation_representation(name)
        twin = gym.make(ids[cfg['base']], disable_env_checker=True).unwrapped
        obs = guarded(ctx, 'gym reset', env.reset)
        twin.set_observation_representation(other)      # reconfigure the *other* instance in mid-episode
        twin.outer_env.inner_env.set_seed(case['seed'] + 1)
        twin.reset()
        n = env.action_space.n
        for i, ai in enumerate(case['actions'][:12]):
            obs, r, done, info = guarded(ctx, 'gym step', env.step, ai % n)
            if not env.observation_space.contains(obs):
                ctx.fail(f'{ids[cfg["base"]]} [{name}]: step {i}: observation outside the advertised gym observation_space after a *second instance* of the same id was switched to "{other}"',
                         {'kind': 'gym_space'})
            check_in_space(ctx, f'{ids[cfg["base"]]} [{name}] step {i} observation (second instance switched to {other})', env.outer_env.observation_representation.space, obs, OBS_KEYS)
            twin.step(ai % n)
            if done:
                env.reset()
        ctx.ev.count('two_instances_of_one_id')


def oracle_hist(case, ctx):
    earlier = []
    for k, cfg in enumerate(case['cfgs']):
        if (case['seed'] + k) % 3 == 0:
            registry_pair(case, ctx, cfg)
        for name in reps.NAMES:
            inner = guarded(ctx, 'build', configs.build, cfg, case['seed'])
            try:
                srep = make_state_representation(name, inner.state_space)
            except ValueError:
                srep = None
            outer = OuterEnv(inner, state_representation=srep, observation_representation=make_observation_representation(name, inner.observation_space))
            env = GymEnvironment(outer)
            wrapped = GymStateWrapper(env) if srep is not None else None

            def check(obs, what):
                if not env.observation_space.contains(obs):
                    bad = [k for k in obs if not env.observation_space[k].contains(obs[k])]
                    ctx.fail(f'{cfg["base"]} {cfg["mods"]} [{name}] {what}: observation outside the advertised gym observation_space (keys {bad})', {'kind': 'gym_space'})
                check_in_space(ctx, f'{cfg["base"]} [{name}] {what} observation', outer.observation_representation.space, outer.observation, OBS_KEYS)
                if srep is not None:
                    st_ = env.state
                    if not env.state_space.contains(st_):
                        bad = [k for k in st_ if not env.state_space[k].contains(st_[k])]
                        ctx.fail(f'{cfg["base"]} {cfg["mods"]} [{name}] {what}: state outside the advertised gym state_space (keys {bad})', {'kind': 'gym_space'})
                    check_in_space(ctx, f'{cfg["base"]} [{name}] {what} state', outer.state_representation.space, st_, STATE_KEYS)

            check(guarded(ctx, 'gym reset', env.reset), 'reset')
            n = env.action_space.n
            for i, ai in enumerate(case['actions']):
                obs, r, done, info = guarded(ctx, 'gym step', env.step, ai % n)
                check(obs, f'step {i}')
                if done:
                    check(guarded(ctx, 'gym reset', env.reset), 'reset')
                if i == len(case['actions']) // 2:
                    # switch representation in mid-episode: the very next read must already be inside the newly advertised space
                    other = reps.NAMES[(reps.NAMES.index(name) + 1 + case['seed'] % 2) % 3]

                    def switch(to):
                        if (case['seed'] + k) % 2:
                            env.set_observation_representation(to)
                            if srep is not None:
                                env.set_state_representation(to)
                        else:
                            # the outer environment's representations are public attributes
                            outer.observation_representation = make_observation_representation(to, inner.observation_space)
                            env.observation_space = outer_space_to_gym_space(outer.observation_representation.space)
                            if srep is not None:
                                outer.state_representation = make_state_representation(to, inner.state_space)
                                env.state_space = outer_space_to_gym_space(outer.state_representation.space)

                    switch(other)
                    check(env.observation, f'read right after switching {name} -> {other}')
                    switch(name)
                    check(env.observation, f'read right after switching back to {name}')
            # environments built earlier in this process are used again: they must still be inside *their* advertised spaces
            for (penv, pname, pcfg) in earlier[-7:]:
                obs, r, done, info = guarded(ctx, 'gym step (earlier environment)', penv.step, 0)
                if not penv.observation_space.contains(obs):
                    bad = [k for k in obs if not penv.observation_space[k].contains(obs[k])]
                    ctx.fail(f'{pcfg["base"]} [{pname}]: used again after {cfg["base"]} [{name}] was built in the same process: observation outside its advertised gym observation_space (keys {bad})',
                             {'kind': 'gym_space'})
                if done:
                    penv.reset()
            earlier.append((env, name, cfg))
            ctx.ev.case([cfg, name, case['seed'], case['actions']], nt=True, classes=['rep:' + name, 'cfg:' + cfg['base'].replace('.yaml', '')] + (['perturbed'] if cfg['mods'] else []),
                        sample={'cfg': cfg, 'representation': name, 'steps': len(case['actions'])})


CHECKS = [
    Check('members', oracle_member, strategy=strat_member, examples={'quick': 500, 'thorough': 2000}, shards={'quick': 4, 'thorough': 16},
          rule='type subset x colour subset x shape (states >= 2x2, views odd width; one case in six tiled to a long grid with a dimension of 40..300, around the 127/128 and 255/256 boundaries) x member built to contain the extremes x 3 representations: key by key inside the declared space, own bounds/dtype check, gym Box and Dict; small state members also as the state of an environment behind OuterEnv and GymEnvironment (representation given to the constructor and chosen with the setters, after an environment over a sibling space of the same shape)',
          required=['max_type', 'locked_door', 'max_colour', 'agent_corner', 'nonsquare', 'agent_x>=height', 'state', 'obs', 'long_grid', 'gym_layer', 'gym_layer_after_sibling_space']),
    Check('all_objects', oracle_objects, enumerate=enum_objects, shards={'quick': 16, 'thorough': 16}, exhaustive=True,
          rule='all 2^9-1 type subsets x 4 colour subsets (16 thorough): every object of the space as a grid cell and as the held item, for states and observations x 3 representations'),
    Check('trajectories', oracle_hist, strategy=strat_hist, examples={'quick': 4, 'thorough': 12}, shards={'quick': 4, 'thorough': 16},
          rule='all 22 shipped configurations (and perturbed, non-square ones) x 3 representations through OuterEnv and GymEnvironment: every reset/step output inside the advertised gym spaces',
          required=['rep:default', 'rep:no-overlap', 'rep:compact', 'perturbed', 'two_instances_of_one_id']),
]
