"""C03 -- the functional interface is pure, alias-free and history-independent."""
import copy
import json

from hypothesis import strategies as st

from vgv import configs, envs, gen, model as M, objs, obsutil
from vgv.framework import Check, guarded

from gym_gridverse import grid_object as go
from gym_gridverse.envs.transition_functions import transition_with_copy
from gym_gridverse.geometry import Orientation, Position
from gym_gridverse.rng import make_rng
from gym_gridverse.utils.fast_copy import fast_copy

RULE = ('non-trivial = the step changes something, or the state contains a box / door / held item, or (history) at least one intervening call '
        'hit a memoisation key again; distinct by (state, action, composition[, questions]).')
ASSUMPTIONS = ['observation cells may alias the state\'s objects (the property constrains states and next states only)',
               'distance rewards bound to unique, non-blocking object types; partially_occluded only with ymax == 0']

UNIQ = ('Exit', 'Beacon')


def mutable_parts(s):
    """ids of every mutable component reachable from a State.  Objects without any instance state (Floor, Wall, MovingObstacle, the
    no-object placeholder) are values: sharing one between two states cannot make a change of either visible in the other."""
    ids = {id(s.grid): 'grid', id(s.grid.objects): 'rows', id(s.agent): 'agent', id(s.agent.transform): 'transform'}
    for row in s.grid.objects:
        ids[id(row)] = 'row'
        for o in row:
            while o is not None:
                if getattr(o, '__dict__', None):
                    ids[id(o)] = type(o).__name__
                o = getattr(o, 'content', None)
    o = s.agent.grid_object
    while o is not None:
        if getattr(o, '__dict__', None):
            ids[id(o)] = 'held ' + type(o).__name__
        o = getattr(o, 'content', None)
    return ids


def scribble(s):
    """overwrite every mutable component of a State in place"""
    for row in s.grid.objects:
        for j, o in enumerate(row):
            if isinstance(o, go.Door):
                o.state = go.Door.Status.OPEN if o.state is not go.Door.Status.OPEN else go.Door.Status.LOCKED
                o.color = go.Color.GREEN if o.color is not go.Color.GREEN else go.Color.RED
            elif isinstance(o, go.Box):
                o.content = go.Wall() if not isinstance(o.content, go.Wall) else go.Floor()
            elif hasattr(o, 'color') and type(o) in (go.Exit, go.Key, go.Telepod, go.Beacon):
                o.color = go.Color.GREEN if o.color is not go.Color.GREEN else go.Color.RED
    h, w = s.grid.shape.height, s.grid.shape.width
    for y in range(h):
        for x in range(w):
            s.grid[y, x] = go.Wall() if not isinstance(s.grid[y, x], go.Wall) else go.Floor()
    s.agent.position = Position(s.agent.position.y + 1, s.agent.position.x + 2)
    s.agent.orientation = s.agent.orientation * Orientation.R
    held = s.agent.grid_object
    if isinstance(held, go.Box):
        held.content = go.Wall()
    elif hasattr(held, 'color') and type(held) in (go.Exit, go.Key, go.Telepod, go.Beacon, go.Door):
        held.color = go.Color.GREEN if held.color is not go.Color.GREEN else go.Color.RED
    s.agent.grid_object = go.Wall()


@st.composite
def setup_s(draw, tier, max_hw=6):
    space = draw(gen.space_s(must=('Floor', 'Wall', 'Exit', 'Beacon', 'Door', 'Box', 'Key')))
    sd = draw(gen.state_s(space, min_hw=2, max_hw=max_hw, valid=True, unique=UNIQ, floor_weight=1))
    comp = draw(gen.composition_s(space, has_beacon=True, unique_pool=UNIQ))
    comp['obs'] = draw(st.sampled_from(obsutil.ALL[:4]))
    area = draw(gen.area_s(max_ext=4, ymax_zero=(comp['obs'] == 'partially_occluded')))
    if draw(st.integers(0, 3)) == 0:
        h, w = M.shape(sd)
        sd['agent'][2] = 'F'
        if comp['obs'] == 'partially_occluded':
            if M.blocks_movement(sd['grid'][h - 1][sd['agent'][1]]) or M.obj_type(sd['grid'][h - 1][sd['agent'][1]]) in UNIQ:
                pass
            else:
                sd['agent'][0] = h - 1
        if comp['obs'] != 'partially_occluded' or sd['agent'][0] == h - 1:
            y, x = sd['agent'][0], sd['agent'][1]
            area = [[-y, h - 1 - y], [-x, w - 1 - x]]     # the view covers the grid exactly
    action = draw(gen.action_s)
    if draw(st.integers(0, 3)) == 0:
        # an in-place object change by construction: a closed/locked door (matching key in hand) or a box in front, and ACTUATE
        f = M.front(sd)
        if M.in_grid(sd, f) and M.obj_type(M.cell(sd, f)) not in UNIQ:
            col = draw(st.sampled_from(space['colors']))
            sd['grid'][f[0]][f[1]] = draw(st.sampled_from([f'D:CLOSED:{col}', f'D:LOCKED:{col}', 'B(K:NONE)', 'B(B(W))']))
            sd['agent'][3] = f'K:{col}'
            action = 'ACTUATE'
            for need in ('actuate_door', 'actuate_box'):
                if need not in comp['chain']:
                    comp['chain'] = comp['chain'] + [need]
    return {'space': space, 'state': sd, 'comp': comp, 'area': area, 'action': action, 'seed': draw(gen.seed_s)}


# ------------------------------------------------------------------ (1)+(2)+(4) purity and alias-freedom


def strat_pure(tier):
    return setup_s(tier)


def oracle_pure(case, ctx):
    sd, a, comp, area = case['state'], case['action'], case['comp'], case['area']
    s = objs.build_state(sd)
    hash(s), hash(s.grid), hash(s.agent)  # states get hashed by planners (dict keys) before being stepped
    A = objs.action(a)
    fn = envs.mk_transition(comp['chain'])

    def unchanged(what, st_=None, d=None):
        if objs.canon_state(st_ or s) != (d or sd):
            ctx.fail(f'{what} modified a state passed to it (agent {objs.canon_state(st_ or s)["agent"]} vs {(d or sd)["agent"]})', {'kind': 'purity', 'what': what.split('[')[0]})

    ns = guarded(ctx, 'transition_with_copy', transition_with_copy, fn, s, A, rng=make_rng(case['seed']))
    unchanged(f'transition_with_copy[{"+".join(comp["chain"])}]')
    nd = objs.canon_state(ns)
    # observation functions
    seed = case['seed'] if comp['obs'] == 'stochastic_raytracing' else None
    for st_, d, nm in ((s, sd, 'state'), (ns, nd, 'next state')):
        guarded(ctx, 'observation', obsutil.observe, comp['obs'], st_, area, seed)
        unchanged(f'observation[{comp["obs"]}] of the {nm} (area {area})', st_, d)
    # rewards and terminations
    rf, tf = envs.mk_rewards(comp['rewards']), envs.mk_term(comp['term'])
    r1 = guarded(ctx, 'reward', rf, s, A, ns)
    t1 = guarded(ctx, 'termination', tf, s, A, ns)
    unchanged('reward/termination function')
    unchanged('reward/termination function (next state)', ns, nd)
    # GridWorld functional interface
    comp2 = dict(comp, view=[1, 1], obs='fully_transparent')
    env = envs.mk_env(case['space'], M.shape(sd), comp2, reset_state=sd)
    env.set_seed(case['seed'])
    ns2, r2, t2 = guarded(ctx, 'functional_step', env.functional_step, s, A)
    unchanged('functional_step')
    guarded(ctx, 'functional_observation', env.functional_observation, s)
    unchanged('functional_observation')
    if objs.canon_state(ns2) != nd or r2 != r1 or bool(t2) != bool(t1):
        ctx.fail('functional_step and its parts (transition_with_copy, reward, termination) with the same seed disagree', {'kind': 'history'})
    # (2) no shared mutable component
    for nxt, nm in ((ns, 'transition_with_copy'), (ns2, 'functional_step')):
        shared = set(mutable_parts(s)) & set(mutable_parts(nxt))
        if shared:
            what = sorted({mutable_parts(s)[i] for i in shared})
            ctx.fail(f'{nm}: the next state shares mutable component(s) {what} with its input state', {'kind': 'alias'})
    # behaviourally, both directions
    scribble(ns)
    unchanged('changing the next state afterwards')
    s3 = objs.build_state(sd)
    ns3 = transition_with_copy(fn, s3, A, rng=make_rng(case['seed']))
    scribble(s3)
    if objs.canon_state(ns3) != nd:
        ctx.fail('changing the input state after the step affected the returned next state', {'kind': 'alias'})
    # (4) copies
    s4 = objs.build_state(sd)
    hash(s4)
    c = fast_copy(s4)
    if not (c == s4) or hash(c) != hash(s4) or objs.canon_state(c) != sd or set(mutable_parts(c)) & set(mutable_parts(s4)):
        ctx.fail('fast_copy: the copy does not equal / hash like / is not independent of its original', {'kind': 'copy'})
    # a next state equals and hashes like a freshly built equal state (no stale memo travels with the copy)
    ns5 = transition_with_copy(fn, s4, A, rng=make_rng(case['seed']))
    fresh = objs.build_state(objs.canon_state(ns5))
    if not (fresh == ns5) or hash(fresh) != hash(ns5) or hash(fresh.grid) != hash(ns5.grid):
        ctx.fail(f'after {a}: the next state does not equal/hash like a freshly built state with the same content', {'kind': 'copy'})
    flat = [o for r in sd['grid'] for o in r]
    cl = ['changed'] if nd != sd else []
    if any(M.obj_type(o) == 'Box' for o in flat):
        cl.append('box')
    if any(o.startswith('B(B(') for o in flat):
        cl.append('nested_box')
    if any(M.obj_type(o) == 'Door' for o in flat):
        cl.append('door')
    if sd['agent'][3] != '_':
        cl.append('holding')
    if M.area_shape(area) == M.shape(sd) and sd['agent'][2] == 'F':
        cl.append('view==grid')
    if any(M.obj_type(M.cell(sd, p)) == 'Door' and M.cell(nd, p) != M.cell(sd, p) for p in M.positions(sd)):
        cl.append('door_opened_in_place')
    cl.append('obs:' + comp['obs'])
    ctx.ev.case(case, nt=any(c in cl for c in ('changed', 'box', 'door', 'holding')), classes=cl, key=[sd, a, comp['chain'], area, comp['obs']])


# ------------------------------------------------------------------ (3) history independence


def ask(q):
    """answer a deterministic question; returns a JSON-able value"""
    sd, a, comp, area = q['state'], q['action'], q['comp'], q['area']
    kind = q['kind']
    s = objs.build_state(sd)
    A = objs.action(a)
    det_chain = [n for n in comp['chain'] if n in M.DETERMINISTIC] or ['move_agent']
    ns = transition_with_copy(envs.mk_transition(det_chain), s, A, rng=make_rng(0))
    if kind == 'user_rays':
        # what user code may do: ask the library's memoised 360-degree fan for the very origin and area the built-in ray-traced view uses
        from gym_gridverse.geometry import Area, Position
        from gym_gridverse.utils import raytracing as rt
        vh, vw = M.area_shape(area)
        rays = rt.cached_compute_rays(Position(-area[0][0], -area[1][0]), Area((0, vh - 1), (0, vw - 1)))
        return [[(int(p.y), int(p.x)) for p in r] for r in rays[:8]]
    if kind == 'step':
        return objs.canon_state(ns)
    if kind == 'obs':
        f = comp['obs'] if comp['obs'] != 'stochastic_raytracing' else 'raytracing'
        return obsutil.observe(f, s, area)
    if kind == 'reward':
        return float(envs.mk_rewards(comp['rewards'])(s, A, ns))
    if kind == 'shortest':
        return float(envs.mk_reward({'name': 'getting_closer_shortest_path', 'object_type': 'Exit', 'reward_closer': 1.0, 'reward_further': -1.0})(s, A, ns))
    return bool(envs.mk_term(comp['term'])(s, A, ns))


@st.composite
def strat_hist(draw, tier):
    q0 = draw(setup_s(tier, max_hw=5))
    q0['kind'] = draw(st.sampled_from(['step', 'obs', 'reward', 'shortest', 'term']))
    others = []
    n = draw(st.sampled_from([0, 2, 6, 14, 25, 25]))
    base = copy.deepcopy(q0) if draw(st.integers(0, 3)) else draw(setup_s(tier, max_hw=5))   # mostly: distinct layouts of q0's own shape
    for i in range(n):
        mode = draw(st.sampled_from(['same_key', 'new_layout', 'new_layout', 'new_layout', 'other_pose', 'reshape_twin']))
        if mode == 'reshape_twin':
            # same cells in row-major order, other shape (a cache key that forgets the shape would collide)
            q = copy.deepcopy(q0)
            h, w = M.shape(q['state'])
            flat = [o for r in q['state']['grid'] for o in r]
            k = draw(st.sampled_from([d for d in range(1, h * w + 1) if (h * w) % d == 0]))
            q['state']['grid'] = [flat[r * k:(r + 1) * k] for r in range(h * w // k)]
            free = [p for p in M.positions(q['state']) if not M.blocks_movement(M.cell(q['state'], p))]
            p = draw(st.sampled_from(free))
            q['state']['agent'][0], q['state']['agent'][1] = p
            q['area'] = [[-1, 0], [-1, 1]]
        elif mode == 'same_key':
            q = copy.deepcopy(q0)
        elif mode == 'other_pose':
            q = copy.deepcopy(q0)
            cells = [p for p in M.positions(q['state']) if not M.blocks_movement(M.cell(q['state'], p))]
            p = draw(st.sampled_from(cells))
            q['state']['agent'][0], q['state']['agent'][1] = p
            q['state']['agent'][2] = draw(gen.heading_s)
        else:
            # a new walkability layout: flip one non-unique cell of the base between wall and floor (churns lru_cache(10))
            q = copy.deepcopy(base)
            cells = [p for p in M.positions(q['state']) if M.obj_type(M.cell(q['state'], p)) not in UNIQ and p != M.apos(q['state'])]
            if cells:
                p = cells[(i * 7) % len(cells)]
                q['state']['grid'][p[0]][p[1]] = 'W' if M.cell(q['state'], p) != 'W' else 'F'
            base = q
        q['kind'] = draw(st.sampled_from(['shortest'] * 5 + ['obs']) if q0['kind'] == 'shortest' else st.sampled_from(['step', 'obs', 'reward', 'shortest', 'shortest', 'term']))
        q['action'] = draw(gen.action_s)
        others.append(q)
    big = {11: 1, 23: 1, 29: 1, 47: 1, 53: 1}.get(draw(st.integers(0, 79)), 9)      # (interior values: Hypothesis over-samples the ends of a range)
    if big < 2:
        # questions whose natural cache keys are arrays of more than 1000 elements (a 33x33 ray-traced view around a small world; a
        # 36x36 / 12x100 world around the small one), asked about worlds that differ in a single interior cell
        if big == 0:
            q0['kind'], q0['area'] = 'obs', gen.HUGE_CENTRED
            q0['comp'] = dict(q0['comp'], obs='raytracing')
        else:
            H, W = draw(st.sampled_from([(36, 36), (16, 100), (100, 16)]))
            q0['kind'] = 'shortest'
            q0['state'] = gen.embed(q0['state'], H, W, draw(st.integers(4, H - 4 - M.shape(q0['state'])[0])), draw(st.integers(4, W - 4 - M.shape(q0['state'])[1])))
        others = []
        cells = [p for p in M.positions(q0['state']) if M.obj_type(M.cell(q0['state'], p)) not in UNIQ and p != M.apos(q0['state'])
                 and (big == 0 or all(3 < c < m - 4 for c, m in zip(p, M.shape(q0['state']))))]
        for p in draw(st.lists(st.sampled_from(cells), min_size=2, max_size=3 if big == 0 else 6)) if cells else []:
            q = copy.deepcopy(q0)
            q['state']['grid'][p[0]][p[1]] = 'W' if M.cell(q['state'], p) != 'W' else 'F'
            others.append(q)
        return {'q': q0, 'others': others, 'q0_first': draw(st.booleans()), 'big': ['view', 'grid'][big]}
    return {'q': q0, 'others': others}


def truth_shortest(q):
    sd = q['state']
    det_chain = [n for n in q['comp']['chain'] if n in M.DETERMINISTIC] or ['move_agent']
    nd = M.step_det(sd, q['action'], det_chain)
    return M.reward({'name': 'getting_closer_shortest_path', 'object_type': 'Exit', 'reward_closer': 1.0, 'reward_further': -1.0}, sd, q['action'], nd)


def same_answer(x, y):
    if isinstance(x, float) and isinstance(y, float):
        return x == y or abs(x - y) <= 1e-12
    return x == y


def oracle_hist(case, ctx):
    q0 = case['q']
    # every answer is also computed in a process without any history (25% of the ordinary cases, all of the big ones)
    check_pristine = ctx.pristine is not None and (bool(case.get('big')) or (len(json.dumps(q0['state'])) % 10 == 0 and len(case['others']) <= 6))
    _ask = ask

    def asked(q):
        ans = _ask(q)
        if check_pristine:
            kind, truth = ctx.pristine.call('vgv.props.c03', 'ask', q)
            if kind != 'ok':
                ctx.fail(f'question {q["kind"]}: a process without history failed ({truth}) where this one answered', {'kind': 'history', 'aspect': 'pristine'})
            elif not same_answer(ans, truth):
                ctx.fail(f'question {q["kind"]} (action {q["action"]}, grid {M.shape(q["state"])}, area {q["area"]}): the answer in this process differs from the answer of a process '
                         f'that has executed nothing before: {str(ans)[:150]} vs {str(truth)[:150]}', {'kind': 'history', 'aspect': 'pristine'})
        return ans

    # half of the other questions come first (an earlier call may have poisoned a cache), the rest in between
    others = case['others']
    pre, post = others[: len(others) // 3], others[len(others) // 3:]
    if case.get('q0_first'):
        pre, post = [], others
    for q in pre:
        ans = guarded(ctx, f'question {q["kind"]}', asked, q)
        if q['kind'] == 'shortest' and ans != truth_shortest(q):
            ctx.fail(f'getting_closer_shortest_path = {ans} on a {M.shape(q["state"])} grid, breadth-first search on the layout gives {truth_shortest(q)} (after earlier questions on other grids)', {'kind': 'history'})
    case = dict(case, others=post)
    first = guarded(ctx, f'question {q0["kind"]}', asked, q0)
    layouts = set()
    seen = {json.dumps([q0['state'], q0['area']], sort_keys=True)}
    rehits = 0
    for q in pre:
        seen.add(json.dumps([q['state'], q['area']], sort_keys=True))
        layouts.add(json.dumps([[not M.blocks_movement(o) for o in r] for r in q['state']['grid']]))
    for q in case['others']:
        ans = guarded(ctx, f'question {q["kind"]}', asked, q)
        if q['kind'] == 'shortest' and ans != truth_shortest(q):
            ctx.fail(f'getting_closer_shortest_path = {ans} on a {M.shape(q["state"])} grid, breadth-first search on the layout gives {truth_shortest(q)} (after earlier questions on other grids)', {'kind': 'history'})
        k = json.dumps([q['state'], q['area']], sort_keys=True)
        rehits += k in seen
        seen.add(k)
        layouts.add(json.dumps([[not M.blocks_movement(o) for o in r] for r in q['state']['grid']]))
    again = guarded(ctx, f'question {q0["kind"]}', asked, q0)
    if again != first:
        ctx.fail(f'the same deterministic question ({q0["kind"]}, action {q0["action"]}) gave a different answer after {len(case["others"])} other calls: {str(first)[:120]} vs {str(again)[:120]}',
                 {'kind': 'history'})
    if q0['kind'] == 'shortest':
        sd = q0['state']
        det_chain = [n for n in q0['comp']['chain'] if n in M.DETERMINISTIC] or ['move_agent']
        nd = M.step_det(sd, q0['action'], det_chain)
        exp = M.reward({'name': 'getting_closer_shortest_path', 'object_type': 'Exit', 'reward_closer': 1.0, 'reward_further': -1.0}, sd, q0['action'], nd)
        if first != exp or again != exp:
            ctx.fail(f'getting_closer_shortest_path = {first}/{again}, breadth-first search on the layout gives {exp}', {'kind': 'history'})
    twins = sum(1 for q in others if M.shape(q['state']) != M.shape(q0['state']) and sorted(o for r in q['state']['grid'] for o in r) == sorted(o for r in q0['state']['grid'] for o in r))
    ctx.ev.case(case, nt=(rehits > 0 or len(layouts) > 10), classes=['q:' + q0['kind']] + (['cache_key_rehit'] if rehits else []) + (['>10_layouts'] if len(layouts) > 10 else [])
                + (['reshape_twin'] if twins else []) + (['big:' + case['big']] if case.get('big') else []) + (['pristine_answers'] if check_pristine else []))


def enum_bigview(tier, shard, nshards):
    """worlds that differ in one cell, all seen through the same 33x33 (thorough also 25x41) ray-traced view: whatever is remembered
    under a key derived from more than 1000 cells must not mix them up (numpy abbreviates the text of arrays over 1000 elements)"""
    areas = [gen.HUGE_CENTRED] if tier == 'quick' else [gen.HUGE_CENTRED, [[-12, 12], [-20, 20]]]
    i = 0
    for area in areas:
        for first in (True, False):
            i += 1
            if i % nshards != shard:
                continue
            base = {'grid': [['F', 'F', 'F', 'F', 'F'], ['F', 'W', 'F', 'E:NONE', 'F'], ['F', 'F', 'F', 'F', 'F'], ['F', 'N:NONE', 'F', 'W', 'F'], ['F', 'F', 'F', 'F', 'F']],
                    'agent': [2, 2, 'F', '_']}
            comp = {'chain': ['move_agent', 'turn_agent'], 'rewards': [{'name': 'living_reward', 'reward': -1.0}], 'term': {'name': 'reach_exit'}, 'obs': 'raytracing', 'view': [1, 1]}
            q0 = {'space': {'types': ['Floor', 'Wall', 'Exit', 'Beacon'], 'colors': ['NONE']}, 'state': base, 'comp': comp, 'area': area, 'action': 'TURN_LEFT', 'seed': 0, 'kind': 'obs'}
            others = []
            for p in ((1, 2), (2, 1), (0, 0)):
                q = copy.deepcopy(q0)
                q['state']['grid'][p[0]][p[1]] = 'W'
                others.append(q)
            yield {'q': q0, 'others': others, 'q0_first': first, 'big': 'view'}
    # a small ray-traced view; user code asks the other memoised fan for the same origin and area, before or after
    for first in (True, False):
        i += 1
        if i % nshards != shard:
            continue
        base = {'grid': [['F', 'W', 'F', 'F', 'F'], ['F', 'F', 'F', 'W', 'F'], ['W', 'F', 'F', 'F', 'F'], ['F', 'F', 'W', 'F', 'E:NONE'], ['N:NONE', 'F', 'F', 'F', 'F']], 'agent': [4, 2, 'F', '_']}
        comp = {'chain': ['move_agent', 'turn_agent'], 'rewards': [{'name': 'living_reward', 'reward': -1.0}], 'term': {'name': 'reach_exit'}, 'obs': 'raytracing', 'view': [1, 1]}
        q0 = {'space': {'types': ['Floor', 'Wall', 'Exit', 'Beacon'], 'colors': ['NONE']}, 'state': base, 'comp': comp, 'area': [[-4, 0], [-2, 2]], 'action': 'TURN_LEFT', 'seed': 0, 'kind': 'obs'}
        others = [dict(copy.deepcopy(q0), kind='user_rays'), dict(copy.deepcopy(q0), kind='step'), dict(copy.deepcopy(q0), kind='user_rays')]
        yield {'q': q0, 'others': others, 'q0_first': first, 'big': 'fans'}


# ------------------------------------------------------------------ shipped compositions


def strat_shipped(tier):
    return st.fixed_dictionaries({
        'cfgs': st.one_of(st.just([{'base': n, 'mods': {}} for n in envs.shipped_names()]), st.lists(configs.config_s(), min_size=1, max_size=3)),
        'seed': gen.seed_s, 'actions': st.lists(st.integers(0, 7), min_size=3, max_size=25 if tier == 'quick' else 100)})


def oracle_shipped(case, ctx):
    for cfg in case['cfgs']:
        env = guarded(ctx, 'build', configs.build, cfg, case['seed'])
        s = guarded(ctx, 'functional_reset', env.functional_reset)
        n = env.action_space.num_actions
        changed = 0
        for i, ai in enumerate(case['actions']):
            a = env.action_space.int_to_action(ai % n)
            before = objs.canon_state(s)
            hash(s)
            ns, r, t = guarded(ctx, 'functional_step', env.functional_step, s, a)
            o = guarded(ctx, 'functional_observation', env.functional_observation, s)
            guarded(ctx, 'functional_observation', env.functional_observation, ns)
            if objs.canon_state(s) != before:
                ctx.fail(f'{cfg["base"]} {cfg["mods"]}: functional_step/functional_observation modified the state passed in (step {i}, {a.name})', {'kind': 'purity'})
            shared = set(mutable_parts(s)) & set(mutable_parts(ns))
            if shared:
                ctx.fail(f'{cfg["base"]}: next state shares {sorted({mutable_parts(s)[j] for j in shared})} with its input', {'kind': 'alias'})
            nd = objs.canon_state(ns)
            keep = fast_copy(ns)
            scribble(s)
            if objs.canon_state(ns) != nd:
                ctx.fail(f'{cfg["base"]}: changing the input state afterwards changed the next state', {'kind': 'alias'})
            changed += nd != before
            s = keep
            if t:
                s = env.functional_reset()
        ctx.ev.case([cfg, case['seed'], case['actions']], nt=(changed > 0), classes=['cfg:' + cfg['base'].replace('.yaml', '')] + (['perturbed'] if cfg['mods'] else []))


CHECKS = [
    Check('purity_alias', oracle_pure, strategy=strat_pure, examples={'quick': 300, 'thorough': 1200}, shards={'quick': 6, 'thorough': 16},
          rule='state (nested boxes, doors, held items; hashed beforehand) x action x composition x area (incl. the view that covers the grid exactly): inputs canonically unchanged by step / observation / reward / termination; '
               'next state shares no mutable part (identity and scribbling, both directions); copies equal and hash alike',
          required=['changed', 'box', 'nested_box', 'door', 'holding', 'view==grid', 'door_opened_in_place', 'obs:partially_occluded', 'obs:raytracing']),
    Check('history', oracle_hist, strategy=strat_hist, examples={'quick': 120, 'thorough': 500}, shards={'quick': 6, 'thorough': 16}, pristine=True,
          rule='a deterministic question (step / observation / reward / shortest-path reward / termination) asked before and after 0-25 other questions (same keys, other poses, > 10 new walkability layouts; families of worlds differing in one interior cell under a 33x33 ray-traced view or inside a world of more than 1000 cells); a tenth of the short cases and all big ones: every answer == the answer of a process that has executed nothing before',
          required=['cache_key_rehit', '>10_layouts', 'q:shortest', 'q:obs', 'reshape_twin', 'big:grid', 'pristine_answers']),
    Check('big_view_family', oracle_hist, enumerate=enum_bigview, shards={'quick': 4, 'thorough': 6}, pristine=True,
          rule='a 5x5 world and three worlds differing from it in one cell, all observed through the same 33x33 (thorough also 25x41) ray-traced view, in both orders; a 5x5 ray-traced view with user code asking the other memoised fan of the library for the same origin and area: every answer == the answer of a process that has executed nothing before',
          required=['big:view', 'big:fans']),
    Check('shipped', oracle_shipped, strategy=strat_shipped, examples={'quick': 3, 'thorough': 10}, shards={'quick': 4, 'thorough': 16},
          rule='all 22 shipped configurations (and perturbed ones) driven through the functional interface: purity and alias-freedom at every step'),
]
