"""C18 -- geometry is a consistent algebra of quarter turns and rigid motions.

Oracle: algebraic laws stated by the property, plus agreement with an independent
model (forward/right vector basis, not the repository's rotation tables)."""
import itertools

from hypothesis import strategies as st

from vgv import objs
from vgv.framework import Check
from vgv.objs import HEADINGS, ACTIONS

from gym_gridverse.envs.utils import get_next_position
from gym_gridverse.geometry import Area, Orientation, Position, Transform
from gym_gridverse.grid import Grid

RULE = 'non-trivial = no operand is the identity orientation / zero position / identity transform.'
ASSUMPTIONS = ['integer coordinates (Python ints, unbounded)', 'areas enumerated up to 7x7 extents at unbounded offsets']

# independent model: heading -> (forward vector, right vector), (dy, dx)
FWD = {'F': (-1, 0), 'R': (0, 1), 'B': (1, 0), 'L': (0, -1)}
RGT = {'F': (0, 1), 'R': (1, 0), 'B': (0, -1), 'L': (-1, 0)}


def m_rot(h, p):
    """model: rotate position p=(y,x) by heading h.  p = -y*fwd_F + x*right_F"""
    y, x = p
    f, r = FWD[h], RGT[h]
    return (-y * f[0] + x * r[0], -y * f[1] + x * r[1])


def m_compose(h1, h2):
    return HEADINGS[(HEADINGS.index(h1) + HEADINGS.index(h2)) % 4]


def m_inv(h):
    return HEADINGS[(-HEADINGS.index(h)) % 4]


def P(p):
    return Position(p[0], p[1])


def T(t):
    return Transform(Position(t[0], t[1]), objs.ori(t[2]))


def yx(p):
    return (int(p.y), int(p.x))


def tr(t):
    return (int(t.position.y), int(t.position.x), objs.ori_name(t.orientation))


# ---------------------------------------------------------------- orientation group


def enum_group(tier, shard, nshards):
    for i, c in enumerate(itertools.product(HEADINGS, repeat=3)):
        if i % nshards == shard:
            yield list(c)


def oracle_group(case, ctx):
    a, b, c = case
    A, B, C = objs.ori(a), objs.ori(b), objs.ori(c)
    ok = lambda cond, msg: cond or ctx.fail(f'orientation group: {msg} for {case}', {'kind': 'group'})  # noqa: E731
    ok(isinstance(A * B, Orientation), 'closure')
    ok(objs.ori_name(A * B) == m_compose(a, b), f'{a}*{b} != model {m_compose(a, b)}')
    ok((A * B) * C == A * (B * C), 'associativity')
    ok(Orientation.F * A == A and A * Orientation.F == A, 'identity')
    ok(A * (-A) == Orientation.F and (-A) * A == Orientation.F, 'inverse')
    ok(objs.ori_name(-A) == m_inv(a), 'inverse != model')
    ok(A * B == B * A, 'commutativity (cyclic group)')
    ok(A * A * A * A == Orientation.F, 'order divides 4')
    # cyclic: R generates everything, in clockwise order
    R = Orientation.R
    gen = [Orientation.F, R, R * R, R * R * R]
    ok([objs.ori_name(g) for g in gen] == HEADINGS, 'R does not generate F,R,B,L in order')
    ok(-(-A) == A, 'double inverse')
    ctx.ev.case(case, nt=('F' not in case), classes=['triple'])


# ---------------------------------------------------------------- action on positions

BIG = st.integers(min_value=-10**12, max_value=10**12) | st.integers(-9, 9) | st.integers()
pos_s = st.tuples(BIG, BIG).map(list)
head_s = st.sampled_from(HEADINGS)
transform_s = st.tuples(BIG, BIG, head_s).map(list)


def strat_pos(tier):
    return st.fixed_dictionaries({'o1': head_s, 'o2': head_s, 'p': pos_s, 'q': pos_s})


def oracle_pos(case, ctx):
    o1, o2, p, q = case['o1'], case['o2'], tuple(case['p']), tuple(case['q'])
    O1, O2 = objs.ori(o1), objs.ori(o2)
    f = lambda msg: ctx.fail(f'position action: {msg} for {case}', {'kind': 'position'})  # noqa: E731
    r = O1 * P(p)
    if not isinstance(r, Position):
        f('result is not a Position')
    if yx(r) != m_rot(o1, p):
        f(f'{o1}*{p} = {yx(r)} != model {m_rot(o1, p)}')
    if yx(P(p) * O1) != m_rot(o1, p):
        f('right-multiplication differs')
    if yx(Orientation.F * P(p)) != p:
        f('F is not the identity on positions')
    if (O1 * O2) * P(p) != O1 * (O2 * P(p)):
        f('(o1*o2)*p != o1*(o2*p)')
    if O1 * (P(p) + P(q)) != O1 * P(p) + O1 * P(q):
        f('not additive')
    if O1 * (-P(p)) != -(O1 * P(p)):
        f('does not commute with negation')
    if O1 * (P(p) - P(q)) != O1 * P(p) - O1 * P(q):
        f('not linear on differences')
    if (-O1) * (O1 * P(p)) != P(p):
        f('inverse orientation does not undo')
    d = lambda a, b: (a.y - b.y) ** 2 + (a.x - b.x) ** 2  # noqa: E731
    if d(O1 * P(p), O1 * P(q)) != d(P(p), P(q)):
        f('not an isometry (squared euclidean)')
    if Position.manhattan_distance(O1 * P(p), O1 * P(q)) != Position.manhattan_distance(P(p), P(q)):
        f('not an isometry (manhattan)')
    if Position.manhattan_distance(P(p), P(q)) != abs(p[0] - q[0]) + abs(p[1] - q[1]):
        f('manhattan distance wrong')
    if yx(Position.from_orientation(O1)) != FWD[o1]:
        f('unit vector of heading differs from model')
    if yx(P(p) + P(q)) != (p[0] + q[0], p[1] + q[1]) or yx(-P(p)) != (-p[0], -p[1]):
        f('position arithmetic')
    nt = o1 != 'F' and o2 != 'F' and p != (0, 0) and q != (0, 0) and p != q
    ctx.ev.case(case, nt=nt, classes=['o1=' + o1])


# ---------------------------------------------------------------- transforms


def strat_tf(tier):
    return st.fixed_dictionaries({'s': transform_s, 't': transform_s, 'u': transform_s, 'p': pos_s, 'o': head_s})


def m_tf_apply(t, p):
    r = m_rot(t[2], p)
    return (t[0] + r[0], t[1] + r[1])


def oracle_tf(case, ctx):
    s, t, u, p, o = case['s'], case['t'], case['u'], tuple(case['p']), case['o']
    S, T_, U = T(s), T(t), T(u)
    f = lambda msg: ctx.fail(f'transform algebra: {msg} for {case}', {'kind': 'transform'})  # noqa: E731
    I = Transform(Position(0, 0), Orientation.F)  # noqa: E741
    if yx(S * P(p)) != m_tf_apply(s, p):
        f(f's*p = {yx(S * P(p))} != model {m_tf_apply(s, p)}')
    st_ = S * T_
    exp = m_tf_apply(s, (t[0], t[1])) + (m_compose(s[2], t[2]),)
    if tr(st_) != exp:
        f(f's*t = {tr(st_)} != model {exp}')
    if (S * T_) * U != S * (T_ * U):
        f('composition not associative')
    if I * S != S or S * I != S:
        f('identity')
    if S * (-S) != I or (-S) * S != I:
        f(f'inverse: s*-s = {tr(S * (-S))}, -s*s = {tr((-S) * S)}')
    if (S * T_) * P(p) != S * (T_ * P(p)):
        f('(s*t)*p != s*(t*p)')
    if (-S) * (S * P(p)) != P(p):
        f('-s does not undo s on positions')
    if (S * T_) * objs.ori(o) != S * (T_ * objs.ori(o)):
        f('(s*t)*o != s*(t*o)')
    if S * objs.ori(o) != objs.ori(s[2]) * objs.ori(o):
        f('transform on orientation')
    if I * P(p) != P(p):
        f('identity on positions')
    if hash(S) != hash(T(s)) or S != T(s):
        f('equal transforms differ in ==/hash')
    # poses are mutable and the library updates them in place (agent moves/turns): the laws must keep holding
    W = T(s)
    _ = -W, W * (-W)
    W.position = P((t[0], t[1]))
    W.orientation = objs.ori(u[2])
    w = [t[0], t[1], u[2]]
    if tr(W) != tuple(w) or W != T(w):
        f('in-place update of a pose is not reflected')
    if W * (-W) != I or (-W) * W != I or (-W) * (W * P(p)) != P(p):
        f(f'inverse is stale after an in-place pose update: w*-w = {tr(W * (-W))}')
    if yx(W * P(p)) != m_tf_apply(w, p):
        f('action is stale after an in-place pose update')
    # a product is a value: it keeps denoting the composition of the poses as they were when it was formed, whatever
    # happens to the operands afterwards (the library moves and turns agents by updating their pose in place)
    A_, B_, E_ = T(s), T(t), Transform(Position(0, 0), Orientation.F)
    prods = {'s*t': A_ * B_, 's*identity': A_ * E_, 'identity*s': E_ * A_, '-s': -A_, 's*(t*identity)': A_ * (B_ * E_)}
    snap = {k: tr(v) for k, v in prods.items()}
    A_.position, A_.orientation = P((u[0], u[1])), objs.ori(m_compose(s[2], 'R'))
    B_.position = P((u[1], u[0]))
    E_.position = P((1, 1))
    for k, v in prods.items():
        if tr(v) != snap[k]:
            f(f'the product {k} changed from {snap[k]} to {tr(v)} when an operand was updated in place afterwards')
    ident = lambda x: x[0] == 0 and x[1] == 0 and x[2] == 'F'  # noqa: E731
    nt = not (ident(s) or ident(t) or ident(u)) and s[2] != 'F' and t[2] != 'F'
    ctx.ev.case(case, nt=nt, classes=['s=' + s[2]])


# ---------------------------------------------------------------- areas


def strat_area(tier):
    ext = st.integers(0, 6 if tier == 'quick' else 8)
    area = st.tuples(BIG, ext, BIG, ext).map(lambda a: [[a[0], a[0] + a[1]], [a[2], a[2] + a[3]]])
    near = st.tuples(st.integers(-4, 3), st.integers(-4, 3), head_s).map(list)      # poses around the origin (coordinates -1/-2 hash alike)
    step = st.tuples(st.sampled_from([-1, 0, 1]), st.sampled_from([-1, 0, 1]), st.sampled_from(['F', 'F', 'L', 'R']))
    return st.fixed_dictionaries({'t': transform_s | near, 'a': area, 'walk': st.lists(step, max_size=6)})


def oracle_area(case, ctx):
    t, a = case['t'], case['a']
    A = objs.build_area(a)
    Tt = T(t)
    f = lambda msg: ctx.fail(f'area action: {msg} for {case}', {'kind': 'area'})  # noqa: E731
    cells = [(y, x) for y in range(a[0][0], a[0][1] + 1) for x in range(a[1][0], a[1][1] + 1)]
    if sorted(yx(p) for p in A.positions()) != sorted(cells):
        f('positions() differs from the rectangle')
    if (A.height, A.width) != (a[0][1] - a[0][0] + 1, a[1][1] - a[1][0] + 1):
        f('height/width')
    border = {c for c in cells if c[0] in (a[0][0], a[0][1]) or c[1] in (a[1][0], a[1][1])}
    got_border = [yx(p) for p in A.positions('border')]
    if set(got_border) != border:  # (duplicates for one-row areas are not the property's business)
        f('border positions')
    inside = [yx(p) for p in A.positions('inside')]
    if set(inside) != set(cells) - border:
        f('inside positions')
    for name, act, model in [
        ('transform', lambda z: Tt * z, lambda p: m_tf_apply(t, p)),
        ('orientation', lambda z: objs.ori(t[2]) * z, lambda p: m_rot(t[2], p)),
        ('translation', lambda z: P((t[0], t[1])) + z, lambda p: (p[0] + t[0], p[1] + t[1])),
    ]:
        B = act(A)
        if not isinstance(B, Area):
            f(f'{name}: result is not an Area')
        got = sorted(yx(p) for p in B.positions())
        exp = sorted(model(c) for c in cells)
        if got != exp:
            f(f'{name}*area positions differ from transformed positions')
        if sorted(yx(act(P(c))) for c in cells) != got:
            f(f'{name}: acting on the area differs from acting on its positions')
        for c in cells[:3] + cells[-3:]:
            if not B.contains(act(P(c))):
                f(f'{name}: transformed area does not contain transformed member')
    if A.contains(P((a[0][0] - 1, a[1][0]))) or A.contains(P((a[0][0], a[1][1] + 1))):
        f('contains accepts outside position')
    # one pose object, updated in place like an agent's (moves of one cell, turns), acting on the same area after every update
    W = T(t)
    w = list(t)
    walked = 0
    for (dy, dx, turn) in case.get('walk', []):
        w = [w[0] + dy, w[1] + dx, m_compose(w[2], turn)]
        W.position = P((w[0], w[1]))
        W.orientation = objs.ori(w[2])
        got = sorted(yx(p) for p in (W * objs.build_area(a)).positions())
        if got != sorted(m_tf_apply(w, c) for c in cells):
            f(f'after {walked + 1} in-place updates of the pose (now {w}) pose*area is not the area of the transformed positions')
        if yx(W * P(cells[0])) != m_tf_apply(w, cells[0]):
            f(f'after {walked + 1} in-place updates of the pose (now {w}) pose*position is stale')
        walked += 1
    nt = t[2] != 'F' and (t[0], t[1]) != (0, 0) and len(cells) > 1 and A.height != A.width
    crossed = any(v in (-1, -2) for v in (t[0], t[1])) and walked > 0
    ctx.ev.case(case, nt=nt, classes=['o=' + t[2], 'cells>1' if len(cells) > 1 else 'cells=1'] + (['pose_walk'] if walked else []) + (['pose_walk_near_minus_one'] if crossed else []))


# ---------------------------------------------------------------- grid rotation

DISTINCT = (
    ['F', 'W', 'M']
    + [f'{l}:{c}' for l in 'EKTN' for c in objs.COLORS]
    + [f'D:{s}:{c}' for s in objs.STATUSES for c in objs.COLORS]
)


def strat_grid(tier):
    m = 6 if tier == 'quick' else 9

    def mk(h, w, perm_seed, distinct):
        return {'h': h, 'w': w, 'perm': perm_seed, 'distinct': distinct}

    return st.builds(mk, st.integers(1, m), st.integers(1, m), st.integers(0, 10**6), st.booleans())


def _grid_for(case):
    h, w = case['h'], case['w']
    n = h * w
    # deterministic pseudo-permutation from the generated integer (no RNG of our own)
    k = case['perm']
    if case['distinct'] and n <= len(DISTINCT):
        pool = list(DISTINCT)
        cells = []
        for i in range(n):
            j = (k + 7 * i) % len(pool)
            cells.append(pool.pop(j))
    else:
        cells = [DISTINCT[(k + i * i + 3 * i) % len(DISTINCT)] for i in range(n)]
    return [cells[r * w:(r + 1) * w] for r in range(h)]


def oracle_grid(case, ctx):
    rows = _grid_for(case)
    h, w = case['h'], case['w']
    f = lambda msg: ctx.fail(f'grid rotation: {msg} for {case}', {'kind': 'grid'})  # noqa: E731
    for o in HEADINGS:
        g = objs.build_grid(rows)
        r = g * objs.ori(o)
        if not isinstance(r, Grid):
            f('result is not a Grid')
        got = objs.canon_grid(r)
        if objs.canon_grid(g) != rows:
            f(f'{o}: rotation modified its operand')
        exp_shape = (h, w) if o in 'FB' else (w, h)
        if (r.shape.height, r.shape.width) != exp_shape or (len(got), len(got[0])) != exp_shape:
            f(f'{o}: shape {r.shape} != {exp_shape}')
        if sorted(c for row in got for c in row) != sorted(c for row in rows for c in row):
            f(f'{o}: objects not preserved as a multiset')
        # documented formula (Grid.__mul__ docstring: RIGHT * ABC/DEF/GHI = CFI/BEH/ADG)
        if o == 'F':
            exp = rows
        elif o == 'R':
            exp = [[rows[j][w - 1 - i] for j in range(h)] for i in range(w)]
        elif o == 'B':
            exp = [[rows[h - 1 - i][w - 1 - j] for j in range(w)] for i in range(h)]
        else:
            exp = [[rows[h - 1 - j][i] for j in range(h)] for i in range(w)]
        if got != exp:
            f(f'{o}: rotated grid differs from the documented rearrangement')
        back = r * (-objs.ori(o))
        if objs.canon_grid(back) != rows:
            f(f'{o}: inverse rotation does not undo')
        if objs.canon_grid(g) != rows:
            f(f'{o}: rotation modified its operand')
        if objs.canon_grid(objs.ori(o) * g) != got:
            f(f'{o}: left and right multiplication differ')
    # a rotated grid is a value of its own: the owner of `view = grid * F` may rotate or overwrite the view (also with the augmented
    # operator) without the source grid changing -- cell contents, row lengths, shape
    for o in HEADINGS:
        g = objs.build_grid(rows)
        view = g * objs.ori('F')
        view *= objs.ori(o)
        if objs.canon_grid(view) != objs.canon_grid(objs.build_grid(rows) * objs.ori(o)):
            f(f'view = grid * F; view *= {o}: the view is not grid * {o}')
        if objs.canon_grid(g) != rows or (g.shape.height, g.shape.width) != (h, w) or [len(r) for r in g.objects] != [w] * h:
            f(f'view = grid * F; view *= {o}: the source grid changed (now {objs.canon_grid(g)[:2]}..., shape {g.shape})')
        for o2 in HEADINGS:
            if objs.canon_grid(g * objs.ori(o2)) != objs.canon_grid(objs.build_grid(rows) * objs.ori(o2)):
                f(f'after view = grid * F; view *= {o}: grid * {o2} differs from the rotation of an equal fresh grid')
    g = objs.build_grid(rows)
    first = {o: objs.canon_grid(g * objs.ori(o)) for o in ['B', 'L', 'F', 'R']}
    second = {o: objs.canon_grid(g * objs.ori(o)) for o in ['R', 'B', 'L', 'F']}
    if first != second or objs.canon_grid(g) != rows:
        f('rotating the same grid repeatedly gives different answers / modifies it')
    ctx.ev.case(case, nt=(h != w and h * w > 1 and case['distinct'] and h * w <= len(DISTINCT)),
                classes=['square' if h == w else 'nonsquare', 'distinct' if case['distinct'] and h * w <= len(DISTINCT) else 'repeats'])


# ---------------------------------------------------------------- next position

UNIT = {'MOVE_FORWARD': (-1, 0), 'MOVE_RIGHT': (0, 1), 'MOVE_BACKWARD': (1, 0), 'MOVE_LEFT': (0, -1)}


def strat_next(tier):
    edge = st.sampled_from([2**63 - 1, 2**63, 2**63 - 2, -2**63, -2**63 + 1, 2**64, 2**31, -2**31 - 1])
    return st.fixed_dictionaries({'p': pos_s | st.tuples(st.integers(-9, 9), st.integers(-9, 9)).map(list), 'numpy_first': st.booleans(),
                                  'far': st.tuples(edge | BIG, edge | BIG).map(list)})


def oracle_next(case, ctx):
    import numpy as np
    p = tuple(case['p'])
    far = case.get('far', [0, 0])
    for h in HEADINGS:
        for a in ACTIONS:
            if case.get('numpy_first') and all(abs(c) < 2**62 for c in p):
                # the library itself often holds positions made of numpy integers (reset functions sample them with a Generator); the
                # same question asked with such a position first, then with plain ints
                get_next_position(Position(np.int64(p[0]), np.int64(p[1])), objs.ori(h), objs.action(a))
            got = get_next_position(P(p), objs.ori(h), objs.action(a))
            # the result takes part in the pose algebra over unbounded integers like any other position
            moved = T([far[0], far[1], 'F']) * got
            exp_moved = (far[0] + (m_tf_apply([p[0], p[1], h], UNIT[a])[0] if a in UNIT else p[0]), far[1] + (m_tf_apply([p[0], p[1], h], UNIT[a])[1] if a in UNIT else p[1]))
            try:
                ok = yx(moved) == exp_moved
            except OverflowError:
                ok = False
            if not ok:
                ctx.fail(f'translating get_next_position({p},{h},{a}) by {tuple(far)} gives {moved}, exact integer arithmetic gives {exp_moved}', {'kind': 'next_position', 'aspect': 'unbounded'})
            if a in UNIT:
                exp_alg = T([p[0], p[1], h]) * P(UNIT[a])
                exp = m_tf_apply([p[0], p[1], h], UNIT[a])
            else:
                exp_alg = P(p)
                exp = p
            if got != exp_alg or yx(got) != exp:
                ctx.fail(f'get_next_position({p},{h},{a}) = {yx(got)} != pose algebra {yx(exp_alg)} / model {exp}', {'kind': 'next_position'})
    ctx.ev.case(case, nt=(p != (0, 0)), classes=['pos'] + (['numpy_ints_first'] if case.get('numpy_first') else []) + (['translation>=2**62'] if max(abs(c) for c in far) >= 2**62 else []))


CHECKS = [
    Check('orientation_group', oracle_group, enumerate=enum_group, shards={'quick': 1, 'thorough': 1}, exhaustive=True,
          rule='all 4^3 orientation triples: closure, identity, associativity, inverse, commutativity, cyclic order 4, agreement with index arithmetic mod 4'),
    Check('position_action', oracle_pos, strategy=strat_pos, examples={'quick': 1500, 'thorough': 6000},
          rule='orientation pairs x unbounded integer positions: linearity, compatibility, isometry, model agreement'),
    Check('transform_algebra', oracle_tf, strategy=strat_tf, examples={'quick': 1500, 'thorough': 6000},
          rule='triples of transforms with unbounded coordinates: associativity, identity, inverse, action compatibility; laws after in-place pose updates; products keep their value when an operand is updated in place afterwards'),
    Check('area_action', oracle_area, strategy=strat_area, examples={'quick': 800, 'thorough': 3000},
          rule='transform x area (extent <= 7, unbounded offset): image of the area == set of images of its positions; then one pose object walked through up to 6 in-place updates (also around the origin), acting on the area after each', required=['cells>1', 'pose_walk', 'pose_walk_near_minus_one']),
    Check('grid_rotation', oracle_grid, strategy=strat_grid, examples={'quick': 400, 'thorough': 1500},
          rule='grid shapes 1..6 (9 thorough) with pairwise distinguishable cells x 4 rotations: multiset, shape, documented rearrangement, inverse', required=['nonsquare', 'distinct']),
    Check('next_position', oracle_next, strategy=strat_next, examples={'quick': 300, 'thorough': 1000},
          rule='unbounded positions x all 4 headings x all 8 actions against pose algebra and model; the same question asked with numpy-integer coordinates first; the result translated by offsets around 2**63 with exact integer arithmetic',
          required=['numpy_ints_first', 'translation>=2**62']),
]
