"""Edited histories: one world is stepped through every calling convention of the dynamics (functional step, look-ahead whose
result is dropped, in-place transition, copying transition) while a *user* edits it in between through the public API
(`grid[pos] = obj`, the drawing helpers of `gym_gridverse.design`, the agent's pose and held item).  After every op

 * the real next state must be a member of the reference model's outcome set for (previous world, action, chain) -- compared
   through the projection that belongs to the property which registers the check (pose / inventory / doors and boxes / all),
 * every state object that a step has left behind (the input of a copying step) must still show what it showed then.

Used by C08, C09, C10 and C11 (`make_check`).  Positions and special cells inside ops are resolved at run time against the
current world, so every generated op list is a valid program."""
import json

from hypothesis import strategies as st

from vgv import envs, gen, model as M, objs, prelude
from vgv.framework import Check, guarded

from gym_gridverse import design
from gym_gridverse.envs.transition_functions import transition_with_copy
from gym_gridverse.geometry import Position
from gym_gridverse.rng import make_rng

STEP_KINDS = ['fstep', 'fstep', 'peek', 'istep', 'cstep']
FOCUS = {
    'C08': dict(must=('Floor', 'Wall', 'Door', 'Telepod'), chain_must=['move_agent', 'turn_agent'], actions=['MOVE_FORWARD', 'MOVE_FORWARD', 'MOVE_LEFT', 'MOVE_RIGHT', 'MOVE_BACKWARD', 'TURN_LEFT', 'TURN_RIGHT', 'ACTUATE']),
    'C09': dict(must=('Floor', 'Key', 'Box', 'Door'), chain_must=['pickndrop'], actions=['PICK_N_DROP', 'PICK_N_DROP', 'ACTUATE', 'MOVE_FORWARD', 'TURN_LEFT', 'TURN_RIGHT']),
    'C10': dict(must=('Floor', 'Door', 'Key', 'Box'), chain_must=['actuate_door', 'actuate_box'], actions=['ACTUATE', 'ACTUATE', 'PICK_N_DROP', 'MOVE_FORWARD', 'TURN_LEFT', 'TURN_RIGHT']),
    'C11': dict(must=('Floor', 'MovingObstacle', 'Telepod'), chain_must=['move_obstacles', 'teleport'], actions=['MOVE_FORWARD', 'MOVE_LEFT', 'TURN_LEFT', 'TURN_RIGHT', 'ACTUATE']),
}


def projection(prop, d, pre):
    if prop == 'C08':
        return json.dumps(d['agent'][:3])
    if prop == 'C09':
        # what is there (deep multiset) and where the scenery stands: walls, exits, beacons, telepods and doors never move
        scenery = [(p, M.obj_type(M.cell(d, p))) for p in M.positions(d) if M.obj_type(M.cell(d, p)) in ('Wall', 'Exit', 'Beacon', 'Telepod', 'Door')]
        return json.dumps([sorted(M.inventory(d).items()), scenery])
    if prop == 'C10':
        cells = [(p, M.cell(d, p)) for p in M.positions(d) if M.obj_type(M.cell(pre, p)) in ('Door', 'Box') or M.obj_type(M.cell(d, p)) in ('Door', 'Box')]
        held = d['agent'][3] if d['agent'][3] != '_' and M.obj_type(d['agent'][3]) in ('Door', 'Box') else None
        return json.dumps([cells, held])
    return json.dumps(d, sort_keys=True)


@st.composite
def strat(draw, prop, tier):
    fc = FOCUS[prop]
    space = draw(gen.space_s(must=fc['must'], allow_box=True))
    sd = draw(gen.state_s(space, min_hw=2, max_hw=5 if tier == 'quick' else 6, valid=True, held='any'))
    if sd['agent'][3] != '_' and not M.holdable(sd['agent'][3]):
        sd['agent'][3] = '_'
    rest = draw(gen.chain_s(M.TRANSITIONS, min_size=0)) if draw(st.booleans()) else list(M.TRANSITIONS)
    chain = list(fc['chain_must']) + [t for t in rest if t not in fc['chain_must']]
    if draw(st.booleans()):
        chain = draw(st.permutations(chain))
    obj = gen.obj_s(space, 2)
    act = st.sampled_from(fc['actions']) | gen.action_s
    small = st.integers(0, 5)
    op = st.one_of(
        st.tuples(st.sampled_from(STEP_KINDS), act).map(list),
        st.tuples(st.sampled_from(STEP_KINDS), act).map(list),
        st.tuples(st.just('edit'), small, small, obj).map(list),
        st.tuples(st.just('edit_special'), small, obj, st.booleans()).map(list),
        st.tuples(st.just('pose'), small, small, gen.heading_s).map(list),
        st.tuples(st.just('pose_special'), small, gen.heading_s).map(list),
        st.tuples(st.just('hold'), obj | st.just('_')).map(list),
        st.tuples(st.just('mutate'), small, gen.obj_s(space, 1), small).map(list),
        st.tuples(st.just('mutate'), small, gen.obj_s(space, 1), small).map(list),
        st.tuples(st.just('observe'), small).map(list),
        st.tuples(st.just('observe'), small).map(list),
        st.tuples(st.just('stamp'), small, small, small).map(list),
        st.tuples(st.just('stamp'), small, small, small).map(list),
        st.tuples(st.just('draw'), st.sampled_from(['h', 'v']), small, small, small, obj).map(list),
    )
    # scripted openings (the initial world is known here, so positions are exact), followed by generated ops
    pre = []
    h, w = M.shape(sd)
    colour = draw(st.sampled_from(space['colors']))
    step_kind = st.sampled_from(['istep', 'fstep', 'cstep'])
    which = draw(st.integers(0, 5))
    if which == 0 and h >= 2 and {'Door', 'Key'} <= set(space['types']):
        # a row of doors drawn with one helper call; the agent next to one of them, holding the key, actuates
        y = draw(st.integers(0, h - 1))
        yy, hd = draw(st.sampled_from([(a, b) for a, b in ((y - 1, 'B'), (y + 1, 'F')) if 0 <= a < h]))
        x = draw(st.integers(0, w - 1))
        status = draw(st.sampled_from(['CLOSED', 'LOCKED']))
        pre = [['edit', yy, x, 'F'], ['pose', yy, x, hd], ['draw', 'h', y, 0, w - 1, f'D:{status}:{colour}'], ['hold', f'K:{colour}'], [draw(step_kind), 'ACTUATE'], [draw(step_kind), 'ACTUATE']]
    elif which == 1 and h >= 2 and {'Door', 'Box'} <= set(space['types']):
        # a box holding a door is opened by a copying step, the revealed door is then actuated in place on the successor
        y = draw(st.integers(0, h - 1))
        yy, hd = draw(st.sampled_from([(a, b) for a, b in ((y - 1, 'B'), (y + 1, 'F')) if 0 <= a < h]))
        x = draw(st.integers(0, w - 1))
        status = draw(st.sampled_from(['CLOSED', 'CLOSED', 'LOCKED', 'OPEN']))
        pre = [['edit', yy, x, 'F'], ['pose', yy, x, hd], ['edit', y, x, f'B(D:{status}:{colour})'], ['hold', f'K:{colour}' if 'Key' in space['types'] else '_'],
               [draw(st.sampled_from(['fstep', 'cstep'])), 'ACTUATE'], ['istep', 'ACTUATE'], ['istep', 'ACTUATE']]
    debug = draw(st.sampled_from([None, True, False, False]))
    if which == 2 and h >= 2 and 'Box' in space['types']:
        # a box is looked at through a step whose result is dropped, its content is then replaced in place (an attribute of an object that
        # is already in the world; boxes compare equal whatever they hold), and the same State object is stepped again
        y = draw(st.integers(0, h - 1))
        yy, hd = draw(st.sampled_from([(a, b) for a, b in ((y - 1, 'B'), (y + 1, 'F')) if 0 <= a < h]))
        x = draw(st.integers(0, w - 1))
        inner = draw(gen.obj_s(space, 1))
        pre = [['edit', yy, x, 'F'], ['pose', yy, x, hd], ['edit', y, x, 'B(F)'], [draw(st.sampled_from(['peek', 'peek', 'cstep'])), 'TURN_LEFT' if draw(st.booleans()) else 'ACTUATE'],
               ['pose', yy, x, hd], ['mutate', 0, inner, 0], [draw(st.sampled_from(['peek', 'fstep', 'cstep'])), 'ACTUATE']]
        debug = draw(st.sampled_from([False, False, None]))
    return {'space': space, 'state': sd, 'chain': list(chain), 'seed': draw(gen.seed_s), 'ops': pre + draw(st.lists(op, min_size=5, max_size=16)), 'debug': debug}


def special_cells(d):
    """cells a user is likely to touch: telepods, doors, boxes, keys, the faced cell"""
    out = M.find(d, lambda o: M.obj_type(o) in ('Telepod', 'Door', 'Box', 'Key', 'MovingObstacle'))
    f = M.front(d)
    if M.in_grid(d, f) and f not in out:
        out.append(f)
    return out


def recolour(o, colour):
    p = M.parse_obj(o)
    t = p['type']
    if t == 'Door':
        return f"D:{p['status']}:{colour}"
    if t in ('Exit', 'Key', 'Telepod', 'Beacon'):
        return f"{objs.TYPE_LETTER[t]}:{colour}"
    return o


def oracle_for(prop):
    def oracle(case, ctx):
        prelude.door_first(ctx)
        from gym_gridverse.debugging import reset_gv_debug
        reset_gv_debug(case.get('debug'))
        try:
            run(case, ctx)
        finally:
            reset_gv_debug(None)

    def run(case, ctx):
        space, chain = case['space'], case['chain']
        d = json.loads(json.dumps(case['state']))
        shape = M.shape(d)
        comp = {'chain': chain, 'rewards': [{'name': 'living_reward', 'reward': -1.0}], 'term': {'name': 'reach_exit'}, 'obs': 'fully_transparent', 'view': [3, 3]}
        env = envs.mk_env(space, shape, comp, reset_state=d)
        env.set_seed(case['seed'])
        fn = envs.mk_transition(chain)
        rng = make_rng(case['seed'])
        s = objs.build_state(d)
        retired = []          # (state object, descriptor when it was left behind, op index)
        kinds = []
        sig = {'kind': 'edited_history'}

        def member(nd, pre, a, what):
            outs = M.step_outcomes(pre, a, chain)
            if outs is None:
                ctx.ev.count('invariants_only')
                return
            got = projection(prop, nd, pre)
            if got not in {projection(prop, json.loads(o), pre) for o in outs}:
                exp = sorted({projection(prop, json.loads(o), pre) for o in outs})[:2]
                ctx.fail(f'{what} (chain {chain}; history {kinds}): from agent {pre["agent"]} on {["".join(c[0] for c in r) for r in pre["grid"]]} the result '
                         f'{got[:160]} is none of the {len(outs)} outcome(s) the documented rules allow, e.g. {str(exp)[:200]}', sig)

        def check_retired(k):
            for (obj, snap, when) in retired:
                now = objs.canon_state(obj)
                if projection(prop, now, snap) != projection(prop, snap, snap):
                    ctx.fail(f'a state left behind by op {when} changed when its successor was used later (op {k}, history {kinds}): '
                             f'{projection(prop, snap, snap)[:120]} -> {projection(prop, now, snap)[:120]}', dict(sig, aspect='left_behind'))

        for k, op in enumerate(case['ops']):
            kind = op[0]
            h, w = shape
            if kind in STEP_KINDS:
                a = op[1]
                A = objs.action(a)
                pre = d
                if kind == 'fstep':
                    ns, r, t = guarded(ctx, f'functional_step {a}', env.functional_step, s, A)
                    nd = objs.canon_state(ns)
                    member(nd, pre, a, f'op {k}: functional_step({a})')
                    if objs.canon_state(s) != pre:
                        ctx.fail(f'op {k}: functional_step({a}) changed its input state', dict(sig, aspect='input_changed'))
                    retired.append((s, pre, k))
                    s, d = ns, nd
                elif kind == 'peek':
                    ns, r, t = guarded(ctx, f'functional_step {a} (look-ahead)', env.functional_step, s, A)
                    member(objs.canon_state(ns), pre, a, f'op {k}: look-ahead functional_step({a})')
                    if objs.canon_state(s) != pre:
                        ctx.fail(f'op {k}: a look-ahead functional_step({a}) changed its input state', dict(sig, aspect='input_changed'))
                elif kind == 'istep':
                    guarded(ctx, f'in-place transition {a}', fn, s, A, rng=rng)
                    nd = objs.canon_state(s)
                    member(nd, pre, a, f'op {k}: in-place transition({a})')
                    d = nd
                else:
                    ns = guarded(ctx, f'transition_with_copy {a}', transition_with_copy, fn, s, A, rng=rng)
                    nd = objs.canon_state(ns)
                    member(nd, pre, a, f'op {k}: transition_with_copy({a})')
                    retired.append((s, pre, k))
                    s, d = ns, nd
                if not M.in_grid(d, (d['agent'][0], d['agent'][1])) or M.blocks_movement(M.cell(d, (d['agent'][0], d['agent'][1]))):
                    if prop == 'C08':
                        ctx.fail(f'op {k}: after {kind}({a}) the agent is at {d["agent"][:2]} on {M.cell(d, (d["agent"][0], d["agent"][1])) if M.in_grid(d, (d["agent"][0], d["agent"][1])) else "nothing (outside)"}', sig)
                    break      # (another property's business; the model's preconditions no longer hold)
            elif kind in ('edit', 'edit_special'):
                if kind == 'edit':
                    p, o = (op[1] % h, op[2] % w), op[3]
                else:
                    sp = special_cells(d)
                    if not sp:
                        continue
                    p, o = sp[op[1] % len(sp)], op[2]
                    if op[3] and M.cell(d, p) != 'F':
                        o = recolour(o, M.color_of(M.cell(d, p)))
                if p == (d['agent'][0], d['agent'][1]) and M.blocks_movement(o):
                    continue
                if (k + p[0] + p[1]) % 2:
                    s.grid[Position(*p)] = objs.build_obj(o)
                else:
                    s.grid[(p[0], p[1])] = objs.build_obj(o)          # cells are addressed by positions or by plain (y, x) tuples
                d['grid'][p[0]][p[1]] = o
            elif kind in ('pose', 'pose_special'):
                if kind == 'pose':
                    p, hd = (op[1] % h, op[2] % w), op[3]
                else:
                    sp = [q for q in special_cells(d) if not M.blocks_movement(M.cell(d, q))]
                    if not sp:
                        continue
                    p, hd = sp[op[1] % len(sp)], op[2]
                if M.blocks_movement(M.cell(d, p)):
                    continue
                how = (k + p[0] + 2 * p[1]) % 3
                if how == 0:
                    s.agent.position = Position(*p)
                    s.agent.orientation = objs.ori(hd)
                elif how == 1:
                    # the pose is a public, mutable attribute of the agent
                    from gym_gridverse.geometry import Transform
                    s.agent.transform = Transform(Position(*p), objs.ori(hd))
                else:
                    s.agent.transform.position = Position(*p)
                    s.agent.transform.orientation = objs.ori(hd)
                d['agent'][0], d['agent'][1], d['agent'][2] = p[0], p[1], hd
            elif kind == 'stamp':
                # the very object of one cell is put into a second cell as well (a template stamped twice): what happens to one occurrence
                # later must not happen to the other
                sp = special_cells(d)
                if not sp:
                    continue
                src = sp[op[1] % len(sp)]
                dst = (op[2] % h, op[3] % w)
                o = M.cell(d, src)
                if dst == src or (dst == (d['agent'][0], d['agent'][1]) and M.blocks_movement(o)):
                    continue
                if any(M.obj_type(x) == 'Door' for x in M.all_objects_deep(o)):
                    continue        # (the library opens a door by changing the door object: a door standing in two cells is one door)
                s.grid[Position(*dst)] = s.grid[Position(*src)]
                d['grid'][dst[0]][dst[1]] = o
            elif kind == 'observe':
                # the owner looks at the world (an occluding observation function; when the agent faces forward the view is made to fit
                # the grid exactly, otherwise a small view): looking changes nothing
                from vgv import obsutil
                y0, x0, hd0 = d['agent'][0], d['agent'][1], d['agent'][2]
                if hd0 == 'F' and op[1] % 2 == 0:
                    area = [[-y0, h - 1 - y0], [-x0, w - 1 - x0]]
                else:
                    area = [[-2, 0], [-1, 1]]
                name = ['raytracing', 'partially_occluded'][op[1] % 2] if area[0][1] == 0 else 'raytracing'
                guarded(ctx, f'observation {name}', obsutil.observe, name, s, area)
            elif kind == 'mutate':
                # an object already in the world is changed in place through its public attributes (box content, door status, colour)
                sp = [q for q in special_cells(d) if M.obj_type(M.cell(d, q)) in ('Box', 'Door', 'Key', 'Telepod')]
                if not sp or 'stamp' in kinds:
                    continue        # (after an object was stamped into a second cell it may also sit inside a box elsewhere: the model does not track that)
                p = sp[op[1] % len(sp)]
                if op[3] == 0 and M.front(d) in sp:
                    p = M.front(d)                       # (the faced object, when it is one of them)
                cur = M.cell(d, p)
                real = s.grid[Position(*p)]
                t = M.obj_type(cur)
                if t == 'Box':
                    new = f'B({op[2]})'
                    real.content = objs.build_obj(op[2])
                elif t == 'Door':
                    po = M.parse_obj(cur)
                    status = objs.STATUSES[(objs.STATUSES.index(po['status']) + 1 + op[3] % 2) % 3]
                    if p == (d['agent'][0], d['agent'][1]) and status != 'OPEN':
                        continue
                    new = f"D:{status}:{po['color']}"
                    from gym_gridverse.grid_object import Door
                    real.state = Door.Status[status]
                else:
                    col = space['colors'][op[3] % len(space['colors'])]
                    new = recolour(cur, col)
                    real.color = objs.color(col)
                for q in M.positions(d):                      # (the object may stand in several cells: the user changed all of them)
                    if s.grid[Position(*q)] is real:
                        d['grid'][q[0]][q[1]] = new
            elif kind == 'hold':
                o = op[1]
                if o != '_' and not M.holdable(o):
                    continue
                from gym_gridverse.grid_object import NoneGridObject
                s.agent.grid_object = NoneGridObject() if o == '_' else objs.build_obj(o)
                d['agent'][3] = o
            elif kind == 'draw':
                _, direction, i, lo, hi, o = op
                if direction == 'h':
                    y, xs = i % h, sorted({lo % w, hi % w})
                    cells = [(y, x) for x in range(xs[0], xs[-1] + 1)]
                else:
                    x, ys = i % w, sorted({lo % h, hi % h})
                    cells = [(y, x) for y in range(ys[0], ys[-1] + 1)]
                if (d['agent'][0], d['agent'][1]) in cells and M.blocks_movement(o):
                    continue
                if direction == 'h':
                    design.draw_line_horizontal(s.grid, cells[0][0], [c[1] for c in cells], lambda: objs.build_obj(o))
                else:
                    design.draw_line_vertical(s.grid, [c[0] for c in cells], cells[0][1], lambda: objs.build_obj(o))
                for c in cells:
                    d['grid'][c[0]][c[1]] = o
            kinds.append(kind)
            now = objs.canon_state(s)
            if now != d:
                ctx.fail(f'op {k} ({op}): the world does not show what the user put there (history {kinds})', dict(sig, aspect='edit'))
            check_retired(k)
        cl = sorted({'op:' + x for x in kinds})
        if case['ops'][2][0] == 'draw' and case['ops'][0][0] == 'edit':
            cl.append('scripted:drawn_door_row')
        if len(case['ops']) > 5 and case['ops'][2][0] == 'edit' and str(case['ops'][2][3]).startswith('B(D:'):
            cl.append('scripted:boxed_door')
        if len(case['ops']) > 6 and case['ops'][2][0] == 'edit' and case['ops'][2][3] == 'B(F)' and case['ops'][5][0] == 'mutate':
            cl.append('scripted:box_content_replaced_between_steps')
        steps = [i for i, x in enumerate(kinds) if x in STEP_KINDS]
        edits = [i for i, x in enumerate(kinds) if x in ('edit', 'edit_special', 'pose', 'pose_special', 'hold', 'draw', 'mutate', 'stamp')]
        if any(e > steps[0] and e < steps[-1] for e in edits) if steps else False:
            cl.append('edit_between_steps')
        for i, x in enumerate(kinds[:-2]):
            if x in ('peek', 'fstep', 'cstep') and kinds[i + 1] in ('istep', 'pose', 'pose_special', 'edit', 'edit_special', 'mutate') and kinds[i + 2] in ('fstep', 'peek', 'cstep'):
                cl.append('peek_change_step')
        if len(retired) >= 2 and 'istep' in kinds:
            cl.append('left_behind_then_inplace')
        cl.append('debug:' + str(case.get('debug')))
        ctx.ev.case(case, nt=('edit_between_steps' in cl), classes=cl)
    return oracle


def make_check(prop, quick=250, thorough=1200):
    return Check('edited_histories', oracle_for(prop), strategy=lambda tier: strat(prop, tier), examples={'quick': quick, 'thorough': thorough}, shards={'quick': 4, 'thorough': 16},
                 rule='one world x 5-16 ops: functional step, look-ahead (result dropped), in-place transition, copying transition, interleaved with user edits through the public '
                      'API (grid[pos] = obj, design.draw_line_*, box content / door status / colour of an object in place, agent pose, held item; cells addressed by Position or by tuple) and with looks at the world through occluding observation functions (view fitted to the grid when the agent faces forward), debug checks on or off: every result inside the model outcome set (projection of this property); states left behind never change',
                 required=['edit_between_steps', 'peek_change_step', 'left_behind_then_inplace', 'op:draw', 'op:edit_special', 'op:pose_special', 'op:mutate', 'op:observe', 'op:stamp', 'debug:False', 'debug:True'] + (['scripted:drawn_door_row', 'scripted:boxed_door', 'scripted:box_content_replaced_between_steps'] if prop in ('C09', 'C10') else []))
