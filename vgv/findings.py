"""known_findings.json: genuine defects recorded rather than repaired (status "open")
and repaired ones (status "fixed", which suppress nothing).  Read-only at run time.

An open entry suppresses exactly the failures whose signature (a dict computed by the
oracle from the failing case: call site + structural predicate) contains every
key/value of the entry's "match" dict.  Anything else is still a VIOLATION."""
import json
import os


class Findings:
    def __init__(self, path):
        self.entries = []
        if os.path.exists(path):
            with open(path) as f:
                self.entries = json.load(f)['findings']

    def open_for(self, prop):
        return [e for e in self.entries if e['status'] == 'open' and prop in e['properties']]

    def match(self, prop, sig):
        for e in self.open_for(prop):
            m = e['match']
            if all(sig.get(k) == v for k, v in m.items()):
                return e
        return None
