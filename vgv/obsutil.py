"""helpers shared by the observation properties (C05-C07)"""
import functools

from vgv import envs, objs

from gym_gridverse.envs import observation_functions as obs_fs, visibility_functions as vis_fs
from gym_gridverse.rng import make_rng

DETERMINISTIC = ['fully_transparent', 'partially_occluded', 'raytracing']
ALL = ['fully_transparent', 'partially_occluded', 'raytracing', 'stochastic_raytracing', 'from_visibility']


def observe(name, sd, area, seed=None, vis=None, vis_kwargs=None):
    """canonical observation of descriptor `sd` with the built-in function `name`.
    vis/vis_kwargs: use from_visibility with the named visibility function and parameters."""
    A = objs.build_area(area)
    if vis is not None:
        vf = functools.partial(vis_fs.visibility_function_registry[vis], **(vis_kwargs or {}))
        f = functools.partial(obs_fs.from_visibility, area=A, visibility_function=vf)
    else:
        f = envs.mk_obs(name, area)
    rng = make_rng(seed) if seed is not None else None
    state = objs.build_state(sd) if isinstance(sd, dict) else sd  # a prebuilt State is observed as is (same object)
    return objs.canon_state(f(state, rng=rng))


def shown(od):
    return {(i, j) for i, row in enumerate(od['grid']) for j, c in enumerate(row) if c != 'H'}
