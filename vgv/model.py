"""Reference model, written on descriptors only (see objs.py for the grammar), from the
property texts and the documentation.  It never calls repository code.

Kinematics use a forward/right vector basis per heading (not the repository's rotation
tables); dynamics enumerate *all* outcomes of the stochastic rules so that a real
next state can be tested for membership."""
import copy
import itertools
import json
import math
from collections import Counter, deque

from vgv.objs import HEADINGS, parse_obj, obj_type

FWD = {'F': (-1, 0), 'R': (0, 1), 'B': (1, 0), 'L': (0, -1)}
RGT = {'F': (0, 1), 'R': (1, 0), 'B': (0, -1), 'L': (-1, 0)}
MOVE_TURNS = {'MOVE_FORWARD': 0, 'MOVE_RIGHT': 1, 'MOVE_BACKWARD': 2, 'MOVE_LEFT': 3}

# ------------------------------------------------------------------ object flags


def blocks_movement(o):
    t = obj_type(o)
    if t in ('Wall', 'Box'):
        return True
    if t == 'Door':
        return parse_obj(o)['status'] != 'OPEN'
    return False


def blocks_vision(o):
    t = obj_type(o)
    if t in ('Wall', 'Hidden', 'NoneGridObject'):
        return True
    if t == 'Door':
        return parse_obj(o)['status'] != 'OPEN'
    return False


def holdable(o):
    return obj_type(o) == 'Key'


def color_of(o):
    return parse_obj(o)['color']


def all_objects_deep(o):
    """o and everything nested in it"""
    out = [o]
    p = parse_obj(o)
    if p['type'] == 'Box':
        out += all_objects_deep(p['content'])
    return out


# ------------------------------------------------------------------ geometry helpers


def shape(d):
    return (len(d['grid']), len(d['grid'][0]))


def in_grid(d, p):
    h, w = shape(d)
    return 0 <= p[0] < h and 0 <= p[1] < w


def cell(d, p):
    return d['grid'][p[0]][p[1]]


def turn(h, k):
    return HEADINGS[(HEADINGS.index(h) + k) % 4]


def rot(h, p):
    """agent-frame offset (dy, dx) (dy<0 = ahead, dx>0 = to the right) -> world offset"""
    f, r = FWD[h], RGT[h]
    return (-p[0] * f[0] + p[1] * r[0], -p[0] * f[1] + p[1] * r[1])


def front(d):
    y, x, h, _ = d['agent']
    return (y + FWD[h][0], x + FWD[h][1])


def move_target(d, action):
    y, x, h, _ = d['agent']
    v = FWD[turn(h, MOVE_TURNS[action])]
    return (y + v[0], x + v[1])


def neighbours4(p):
    return [(p[0] - 1, p[1]), (p[0], p[1] + 1), (p[0] + 1, p[1]), (p[0], p[1] - 1)]


def positions(d):
    h, w = shape(d)
    return [(y, x) for y in range(h) for x in range(w)]


def find(d, pred):
    return [p for p in positions(d) if pred(cell(d, p))]


# ------------------------------------------------------------------ dynamics

DETERMINISTIC = ('move_agent', 'turn_agent', 'pickndrop', 'actuate_door', 'actuate_box')
STOCHASTIC = ('move_obstacles', 'teleport')
TRANSITIONS = DETERMINISTIC + STOCHASTIC


def t_move_agent(d, a):
    if a in MOVE_TURNS:
        t = move_target(d, a)
        if in_grid(d, t) and not blocks_movement(cell(d, t)):
            d['agent'][0], d['agent'][1] = t
    return [d]


def t_turn_agent(d, a):
    if a == 'TURN_LEFT':
        d['agent'][2] = turn(d['agent'][2], -1)
    elif a == 'TURN_RIGHT':
        d['agent'][2] = turn(d['agent'][2], 1)
    return [d]


def t_pickndrop(d, a):
    if a == 'PICK_N_DROP':
        f = front(d)
        if in_grid(d, f):
            o = cell(d, f)
            held = d['agent'][3]
            if o == 'F' or holdable(o):
                d['grid'][f[0]][f[1]] = held if held != '_' else 'F'
                d['agent'][3] = o if holdable(o) else '_'
    return [d]


def t_actuate_door(d, a):
    if a == 'ACTUATE':
        f = front(d)
        if in_grid(d, f) and obj_type(cell(d, f)) == 'Door':
            p = parse_obj(cell(d, f))
            held = d['agent'][3]
            if p['status'] == 'CLOSED' or (
                p['status'] == 'LOCKED' and obj_type(held) == 'Key' and color_of(held) == p['color']
            ):
                d['grid'][f[0]][f[1]] = f"D:OPEN:{p['color']}"
    return [d]


def t_actuate_box(d, a):
    if a == 'ACTUATE':
        f = front(d)
        if in_grid(d, f) and obj_type(cell(d, f)) == 'Box':
            d['grid'][f[0]][f[1]] = parse_obj(cell(d, f))['content']
    return [d]


def telepod_partners(d):
    y, x = d['agent'][0], d['agent'][1]
    if not in_grid(d, (y, x)):
        return None
    here = cell(d, (y, x))
    if obj_type(here) != 'Telepod':
        return None
    return [p for p in positions(d) if p != (y, x) and obj_type(cell(d, p)) == 'Telepod' and color_of(cell(d, p)) == color_of(here)]


def t_teleport(d, a):
    ps = telepod_partners(d)
    if not ps:
        return [d]
    out = []
    for p in ps:
        e = copy.deepcopy(d)
        e['agent'][0], e['agent'][1] = p
        out.append(e)
    return out


def obstacle_outcomes(grid, limit=4000):
    """all grids reachable by letting each obstacle present at the start take exactly one
    turn, in any order: it swaps with a 4-neighbour that is Floor at that moment, or stays
    only if it has none.  Returns a set of JSON strings (canonical)."""
    h, w = len(grid), len(grid[0])
    start = [(y, x) for y in range(h) for x in range(w) if grid[y][x] == 'M']
    results = set()
    # state of the search: (grid as tuple of tuples, tuple of remaining original obstacles' current positions)
    seen = set()
    stack = [(tuple(map(tuple, grid)), tuple(start))]
    while stack:
        g, todo = stack.pop()
        if (g, todo) in seen:
            continue
        seen.add((g, todo))
        if len(seen) > limit:
            return None
        if not todo:
            results.add(json.dumps([list(r) for r in g]))
            continue
        for i, p in enumerate(todo):
            rest = todo[:i] + todo[i + 1:]
            free = [q for q in neighbours4(p) if 0 <= q[0] < h and 0 <= q[1] < w and g[q[0]][q[1]] == 'F']
            if not free:
                stack.append((g, rest))
            for q in free:
                gl = [list(r) for r in g]
                gl[p[0]][p[1]], gl[q[0]][q[1]] = 'F', 'M'
                stack.append((tuple(map(tuple, gl)), rest))
    return results


def t_move_obstacles(d, a):
    outs = obstacle_outcomes(d['grid'])
    if outs is None:
        return None
    res = []
    for g in sorted(outs):
        e = {'grid': json.loads(g), 'agent': list(d['agent'])}
        res.append(e)
    return res


_T = {
    'move_agent': t_move_agent, 'turn_agent': t_turn_agent, 'pickndrop': t_pickndrop,
    'actuate_door': t_actuate_door, 'actuate_box': t_actuate_box,
    'teleport': t_teleport, 'move_obstacles': t_move_obstacles,
}


def step_outcomes(d, action, chain, limit=3000):
    """set of canonical JSON strings of every possible next state; None if too many"""
    cur = [copy.deepcopy(d)]
    for name in chain:
        nxt = {}
        for s in cur:
            outs = _T[name](copy.deepcopy(s), action)
            if outs is None:
                return None
            for o in outs:
                nxt[json.dumps(o, sort_keys=True)] = o
        if len(nxt) > limit:
            return None
        cur = list(nxt.values())
    return {json.dumps(s, sort_keys=True) for s in cur}


def step_det(d, action, chain):
    """next state for a chain of deterministic transitions"""
    assert all(n in DETERMINISTIC for n in chain), chain
    s = copy.deepcopy(d)
    for name in chain:
        (s,) = _T[name](s, action)
    return s


def is_deterministic_here(d, chain):
    """does the chain have a single outcome from d whatever the action (no obstacles, not on a paired telepod)?"""
    return all(n in DETERMINISTIC for n in chain)


# ------------------------------------------------------------------ inventories / conservation


def _norm_status(o):
    """door status is allowed to change (C10); it is not part of an object's identity for conservation"""
    p = parse_obj(o)
    if p['type'] == 'Door':
        return f"D:*:{p['color']}"
    if p['type'] == 'Box':
        return 'B(' + _norm_status(p['content']) + ')'
    return o


def inventory(d):
    """multiset of deep-canonical non-floor objects on the grid plus the held item (door status ignored)"""
    c = Counter(_norm_status(o) for row in d['grid'] for o in row if o != 'F')
    if d['agent'][3] not in ('_', 'F'):
        c[_norm_status(d['agent'][3])] += 1
    return c


def inventories_after_box_opening(d):
    """inventories obtainable from d by opening exactly one box that is on the grid"""
    outs = []
    base = inventory(d)
    for row in d['grid']:
        for o in row:
            if obj_type(o) == 'Box':
                c = Counter(base)
                c[_norm_status(o)] -= 1
                inner = parse_obj(o)['content']
                if inner != 'F':
                    c[_norm_status(inner)] += 1
                outs.append(+c)
    return outs


# ------------------------------------------------------------------ spaces


def state_in_space(d, space_shape, types):
    h, w = shape(d)
    if (h, w) != tuple(space_shape):
        return False
    if any(obj_type(o) not in types for row in d['grid'] for o in row):
        return False
    if any(len(row) != w for row in d['grid']):
        return False
    y, x, hd, held = d['agent']
    if not (0 <= y < h and 0 <= x < w):
        return False
    if hd not in HEADINGS:
        return False
    if held != '_' and obj_type(held) not in types:
        return False
    return True


def obs_in_space(d, space_shape, types, colors):
    h, w = shape(d)
    if (h, w) != tuple(space_shape):
        return False
    cols = set(colors) | {'NONE'}
    for row in d['grid']:
        for o in row:
            if obj_type(o) != 'Hidden' and obj_type(o) not in types:
                return False
            if color_of(o) not in cols:
                return False
    y, x, hd, held = d['agent']
    if not (0 <= y < h and 0 <= x < w):
        return False
    if held != '_' and obj_type(held) not in types:
        return False
    if color_of(held) not in cols:
        return False
    return True


# ------------------------------------------------------------------ rewards and termination


def _unique_pos(d, type_name):
    ps = [p for p in positions(d) if obj_type(cell(d, p)) == type_name]
    assert len(ps) == 1, (type_name, ps)
    return ps[0]


def _dist(name, p, q):
    if name == 'manhattan':
        return float(abs(p[0] - q[0]) + abs(p[1] - q[1]))
    return math.sqrt((p[0] - q[0]) ** 2 + (p[1] - q[1]) ** 2)


def walk_distance(d, src, dst):
    """length of the shortest 4-connected path from src to dst over cells that do not
    block movement (inf if none).  src and dst are assumed non-blocking."""
    if src == dst:
        return 0.0
    seen = {src}
    q = deque([(src, 0)])
    while q:
        p, k = q.popleft()
        for n in neighbours4(p):
            if n in seen or not in_grid(d, n) or blocks_movement(cell(d, n)):
                continue
            if n == dst:
                return float(k + 1)
            seen.add(n)
            q.append((n, k + 1))
    return float('inf')


def apos(d):
    return (d['agent'][0], d['agent'][1])


def reward(spec, s, a, n):
    """spec = {'name':..., params}.  s, n descriptors, a action name"""
    name = spec['name']
    g = lambda k, dflt: spec.get(k, dflt)  # noqa: E731
    if name == 'living_reward':
        return g('reward', -1.0)
    if name == 'overlap':
        on = obj_type(cell(n, apos(n))) == spec['object_type']
        return g('reward_on', 1.0) if on else g('reward_off', 0.0)
    if name == 'reach_exit':
        on = obj_type(cell(n, apos(n))) == 'Exit'
        return g('reward_on', 1.0) if on else g('reward_off', 0.0)
    if name == 'bump_moving_obstacle':
        return g('reward', -1.0) if cell(n, apos(n)) == 'M' else 0.0
    if name == 'proportional_to_distance':
        dist = _dist(g('distance_function', 'manhattan'), apos(n), _unique_pos(n, spec['object_type']))
        return g('reward_per_unit_distance', -1.0) * dist
    if name in ('getting_closer', 'getting_closer_shortest_path'):
        if name == 'getting_closer':
            df = g('distance_function', 'manhattan')
            d0 = _dist(df, apos(s), _unique_pos(s, spec['object_type']))
            d1 = _dist(df, apos(n), _unique_pos(n, spec['object_type']))
        else:
            d0 = walk_distance(s, apos(s), _unique_pos(s, spec['object_type']))
            d1 = walk_distance(n, apos(n), _unique_pos(n, spec['object_type']))
        if d1 < d0:
            return g('reward_closer', 1.0)
        if d1 > d0:
            return g('reward_further', -1.0)
        return 0.0
    if name == 'bump_into_wall':
        if a in MOVE_TURNS:
            t = move_target(s, a)
            if in_grid(s, t) and cell(s, t) == 'W':
                return g('reward', -1.0)
        return 0.0
    if name == 'actuate_door':
        if a == 'ACTUATE':
            f = front(s)
            if in_grid(s, f) and obj_type(cell(s, f)) == 'Door' and in_grid(n, f) and obj_type(cell(n, f)) == 'Door':
                was_open = parse_obj(cell(s, f))['status'] == 'OPEN'
                is_open = parse_obj(cell(n, f))['status'] == 'OPEN'
                if not was_open and is_open:
                    return g('reward_open', 1.0)
                if was_open and not is_open:
                    return g('reward_close', -1.0)
        return 0.0
    if name == 'pickndrop':
        had = obj_type(s['agent'][3]) == spec['object_type']
        has = obj_type(n['agent'][3]) == spec['object_type']
        if not had and has:
            return g('reward_pick', 1.0)
        if had and not has:
            return g('reward_drop', -1.0)
        return 0.0
    if name == 'reach_exit_memory':
        here = cell(n, apos(n))
        if obj_type(here) != 'Exit':
            return 0.0
        beacons = [cell(n, p) for p in positions(n) if obj_type(cell(n, p)) == 'Beacon']
        assert beacons and len({color_of(b) for b in beacons}) == 1
        return g('reward_good', 1.0) if color_of(here) == color_of(beacons[0]) else g('reward_bad', -1.0)
    if name == 'reduce_sum':
        return sum(reward(r, s, a, n) for r in spec['reward_functions'])
    raise KeyError(name)


def terminal(spec, s, a, n):
    name = spec['name']
    if name == 'overlap':
        return obj_type(cell(n, apos(n))) == spec['object_type']
    if name == 'reach_exit':
        return obj_type(cell(n, apos(n))) == 'Exit'
    if name == 'bump_moving_obstacle':
        return cell(n, apos(n)) == 'M'
    if name == 'bump_into_wall':
        if a in MOVE_TURNS:
            t = move_target(s, a)
            return in_grid(s, t) and cell(s, t) == 'W'
        return False
    if name == 'reduce_any':
        return any(terminal(t, s, a, n) for t in spec['terminating_functions'])
    if name == 'reduce_all':
        return all(terminal(t, s, a, n) for t in spec['terminating_functions'])
    raise KeyError(name)


# ------------------------------------------------------------------ observations


def view_cell_to_world(d, area, i, j):
    """observation cell (i, j) of a view with `area` -> world cell"""
    (ymin, _), (xmin, _) = area
    y, x, h, _ = d['agent']
    off = rot(h, (i + ymin, j + xmin))
    return (y + off[0], x + off[1])


def area_shape(area):
    return (area[0][1] - area[0][0] + 1, area[1][1] - area[1][0] + 1)


def full_view(d, area):
    """what a fully transparent observation must be"""
    vh, vw = area_shape(area)
    grid = []
    for i in range(vh):
        row = []
        for j in range(vw):
            p = view_cell_to_world(d, area, i, j)
            row.append(cell(d, p) if in_grid(d, p) else 'H')
        grid.append(row)
    return {'grid': grid, 'agent': [-area[0][0], -area[1][0], 'F', d['agent'][3]]}


def rotate_world(d, q):
    """rotate grid and pose clockwise by q quarter turns, by coordinates:
    one clockwise quarter turn sends (y, x) of an h x w grid to (x, h-1-y) and F->R->B->L."""
    cur = copy.deepcopy(d)
    for _ in range(q % 4):
        h, w = shape(cur)
        new = [[None] * h for _ in range(w)]
        for y in range(h):
            for x in range(w):
                new[x][h - 1 - y] = cur['grid'][y][x]
        ay, ax, hd, held = cur['agent']
        cur = {'grid': new, 'agent': [ax, h - 1 - ay, turn(hd, 1), held]}
    return cur


# ------------------------------------------------------------------ representations

BUILTIN_TYPE_ORDER = [
    'NoneGridObject', 'Hidden', 'Floor', 'Wall', 'Exit', 'Door', 'Key',
    'MovingObstacle', 'Box', 'Telepod', 'Beacon',
]
COLOR_VALUE = {'NONE': 0, 'RED': 1, 'GREEN': 2, 'BLUE': 3, 'YELLOW': 4}
STATUS_VALUE = {'OPEN': 0, 'CLOSED': 1, 'LOCKED': 2}
NUM_STATES = {t: 1 for t in BUILTIN_TYPE_ORDER}
NUM_STATES['Door'] = 3


def triple(o):
    """(type index, status index, colour value) of an object descriptor"""
    p = parse_obj(o)
    return (BUILTIN_TYPE_ORDER.index(p['type']), STATUS_VALUE[p['status']] if p['type'] == 'Door' else 0, COLOR_VALUE[p['color']])


# ------------------------------------------------------------------ planning (witness construction on descriptors)

MOVE_BY_TURN = {v: k for k, v in MOVE_TURNS.items()}


def bfs_path(d, src, dst, passable=None, avoid=()):
    """shortest 4-connected path src..dst (inclusive) over cells for which passable(cell) holds
    (default: not movement-blocking); cells in `avoid` are never entered (dst excepted)."""
    if passable is None:
        passable = lambda o: not blocks_movement(o)  # noqa: E731
    if src == dst:
        return [src]
    prev = {src: None}
    q = deque([src])
    while q:
        p = q.popleft()
        for n in neighbours4(p):
            if n in prev or not in_grid(d, n):
                continue
            if n != dst and (n in avoid or not passable(cell(d, n))):
                continue
            if n == dst and not passable(cell(d, n)):
                continue
            prev[n] = p
            if n == dst:
                path = [n]
                while prev[path[-1]] is not None:
                    path.append(prev[path[-1]])
                return path[::-1]
            q.append(n)
    return None


def moves_along(path, heading):
    """MOVE_* actions (relative to a fixed heading) that follow the path"""
    acts = []
    for p, n in zip(path, path[1:]):
        v = (n[0] - p[0], n[1] - p[1])
        k = next(k for k in range(4) if FWD[turn(heading, k)] == v)
        acts.append(MOVE_BY_TURN[k])
    return acts


def turns_to_face(heading, v):
    """TURN_* actions that make the agent face direction v; returns (actions, new heading)"""
    k = next(k for k in range(4) if FWD[turn(heading, k)] == v)
    acts = {0: [], 1: ['TURN_RIGHT'], 2: ['TURN_RIGHT', 'TURN_RIGHT'], 3: ['TURN_LEFT']}[k]
    return acts, turn(heading, k)


def plan_reach(d, goal, avoid=()):
    """actions that walk the agent onto `goal` without entering `avoid` cells, or None"""
    path = bfs_path(d, apos(d), goal, avoid=avoid)
    if path is None:
        return None
    return moves_along(path, d['agent'][2])


def plan_keydoor(d):
    """fetch the key, unlock the door, walk to the exit.  None if the model sees no way."""
    keys = find(d, lambda o: obj_type(o) == 'Key')
    doors = find(d, lambda o: obj_type(o) == 'Door')
    exits = find(d, lambda o: obj_type(o) == 'Exit')
    if len(doors) != 1 or len(exits) != 1:
        return None
    door, ex = doors[0], exits[0]
    chain = ['move_agent', 'turn_agent', 'actuate_door', 'pickndrop']
    cur = copy.deepcopy(d)
    plan = []

    def do(acts):
        nonlocal cur
        for a in acts:
            cur = step_det(cur, a, chain)
            plan.append(a)

    dcol = color_of(cell(d, door))
    if not (obj_type(cur['agent'][3]) == 'Key' and color_of(cur['agent'][3]) == dcol):
        ks = [k for k in keys if color_of(cell(d, k)) == dcol]
        if not ks:
            return None
        key = ks[0]
        best = None
        for n in neighbours4(key):
            if in_grid(cur, n) and cell(cur, n) == 'F' or (in_grid(cur, n) and n == apos(cur)):
                p = bfs_path(cur, apos(cur), n, avoid=set(exits))
                if p is not None and (best is None or len(p) < len(best[0])):
                    best = (p, n)
        if best is None:
            return None
        do(moves_along(best[0], cur['agent'][2]))
        acts, _ = turns_to_face(cur['agent'][2], (key[0] - best[1][0], key[1] - best[1][1]))
        do(acts)
        if cur['agent'][3] != '_':
            return None
        do(['PICK_N_DROP'])
    # to a passable neighbour of the door on the agent's side
    best = None
    for n in neighbours4(door):
        if in_grid(cur, n) and not blocks_movement(cell(cur, n)):
            p = bfs_path(cur, apos(cur), n, avoid=set(exits))
            if p is not None and (best is None or len(p) < len(best[0])):
                best = (p, n)
    if best is None:
        return None
    do(moves_along(best[0], cur['agent'][2]))
    acts, _ = turns_to_face(cur['agent'][2], (door[0] - best[1][0], door[1] - best[1][1]))
    do(acts)
    do(['ACTUATE'])
    p = bfs_path(cur, apos(cur), ex)
    if p is None:
        return None
    do(moves_along(p, cur['agent'][2]))
    return plan
