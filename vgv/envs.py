"""Real-environment construction from descriptors, shipped-configuration loading, and
the hand assembly used as the differential partner in C17/C20."""
import copy
import functools
import glob
import os

import gym_gridverse  # noqa: F401
import yaml
from gym_gridverse import grid_object as go
from gym_gridverse.action import Action
from gym_gridverse.envs import (
    observation_functions as obs_fs,
    reset_functions as reset_fs,
    reward_functions as reward_fs,
    terminating_functions as term_fs,
    transition_functions as trans_fs,
    visibility_functions as vis_fs,
)
from gym_gridverse.envs.gridworld import GridWorld
from gym_gridverse.geometry import Area, Position, Shape
from gym_gridverse.spaces import ActionSpace, ObservationSpace, StateSpace

from vgv import objs
from vgv.framework import REPO_DIR

assert os.path.realpath(yaml.__file__).find('vendor') >= 0, f'PyYAML not the vendored one: {yaml.__file__}'


def real_types(names):
    return [getattr(go, n) for n in names]


def real_colors(names):
    return [go.Color[n] for n in names]


def mk_transition(chain):
    fs = [trans_fs.transition_function_registry[n] for n in chain]
    return functools.partial(trans_fs.chain, transition_functions=fs)


def _conv(spec):
    kw = {k: v for k, v in spec.items() if k != 'name'}
    if 'object_type' in kw:
        kw['object_type'] = getattr(go, kw['object_type'])
    if 'distance_function' in kw:
        kw['distance_function'] = {'manhattan': Position.manhattan_distance, 'euclidean': Position.euclidean_distance}[kw['distance_function']]
    return kw


def mk_reward(spec, via_factory=False):
    """the built-in reward with the given parameters: bound directly on the registry function, or obtained by name through factory()"""
    kw = _conv(spec)
    if 'reward_functions' in kw:
        kw['reward_functions'] = [mk_reward(s, via_factory) for s in kw['reward_functions']]
    if via_factory:
        return reward_fs.factory(spec['name'], **kw)
    return functools.partial(reward_fs.reward_function_registry[spec['name']], **kw)


def mk_rewards(specs, via_factory=False):
    return mk_reward({'name': 'reduce_sum', 'reward_functions': specs}, via_factory)


def mk_term(spec, via_factory=False):
    kw = _conv(spec)
    if 'terminating_functions' in kw:
        kw['terminating_functions'] = [mk_term(s, via_factory) for s in kw['terminating_functions']]
    if via_factory:
        return term_fs.factory(spec['name'], **kw)
    return functools.partial(term_fs.terminating_function_registry[spec['name']], **kw)


def mk_obs(name, area):
    A = objs.build_area(area)
    if name == 'from_visibility':
        return functools.partial(obs_fs.from_visibility, area=A, visibility_function=vis_fs.visibility_function_registry['fully_transparent'])
    return functools.partial(obs_fs.observation_function_registry[name], area=A)


def mk_env(space, shape, comp, reset_state=None):
    """GridWorld assembled from built-in components.  comp as produced by gen.composition_s"""
    from vgv import gen
    types = real_types(space['types'])
    colors = real_colors(space['colors'])
    vh, vw = comp['view']
    st_space = StateSpace(Shape(*shape), types, colors)
    ob_space = ObservationSpace(Shape(vh, vw), types, colors)
    actions = [Action[a] for a in comp.get('actions', objs.ACTIONS)]

    def reset(*, rng=None):
        return objs.build_state(reset_state)

    return GridWorld(
        st_space, ActionSpace(actions), ob_space, reset,
        mk_transition(comp['chain']), mk_obs(comp['obs'], gen.view_area(vh, vw)),
        mk_rewards(comp['rewards'], comp.get('via_factory', False)), mk_term(comp['term'], comp.get('via_factory', False)),
    )


# ----------------------------------------------------------------------------- shipped configurations


def shipped_paths():
    ps = sorted(glob.glob(os.path.join(REPO_DIR, 'yaml', '*.yaml')))
    ps.append(os.path.join(REPO_DIR, 'examples', 'coin_env.yaml'))
    return ps


def shipped_names():
    return [os.path.basename(p) for p in shipped_paths()]


@functools.lru_cache(maxsize=None)
def _load(path):
    with open(path) as f:
        return yaml.safe_load(f)


def shipped_data(name):
    """a fresh deep copy of the parsed data tree of a shipped file"""
    for p in shipped_paths():
        if os.path.basename(p) == name:
            return copy.deepcopy(_load(p))
    raise KeyError(name)


def build_from_data(data):
    from gym_gridverse.envs.yaml.factory import factory_env_from_data
    return factory_env_from_data(data)


def build_shipped(name, seed=None):
    env = build_from_data(shipped_data(name))
    if seed is not None:
        env.set_seed(seed)
    return env


# ----------------------------------------------------------------------------- hand assembly (differential partner of the YAML factory)

import importlib
import inspect

from gym_gridverse.envs.reset_functions import reset_function_registry
from gym_gridverse.envs.reward_functions import reward_function_registry
from gym_gridverse.envs.terminating_functions import terminating_function_registry
from gym_gridverse.envs.transition_functions import transition_function_registry
from gym_gridverse.envs.observation_functions import observation_function_registry
from gym_gridverse.envs.visibility_functions import visibility_function_registry

_PROTOCOL = {'state', 'action', 'next_state', 'rng', 'grid', 'position'}


def _strip(name):
    """'module:name' -> import module, return name"""
    if ':' in name:
        mod, name = name.split(':')
        importlib.import_module(mod)
    return name


def _object_type(name):
    name = _strip(name)
    for cls in go.grid_object_registry:
        if cls.__name__ == name:
            return cls
    raise ValueError(name)


def _convert_params(d):
    """own conversion of the reserved keys of a component entry (name removed)"""
    out = {}
    for k, v in d.items():
        if k == 'name':
            continue
        if k == 'shape':
            v = Shape(v[0], v[1])
        elif k == 'layout':
            v = (v[0], v[1])
        elif k == 'area':
            v = Area((v[0][0], v[0][1]), (v[1][0], v[1][1]))
        elif k == 'object_type':
            v = _object_type(v)
        elif k == 'colors':
            v = {go.Color[c] for c in v}
        elif k == 'distance_function':
            v = {'manhattan': Position.manhattan_distance, 'euclidean': Position.euclidean_distance}[v]
        elif k == 'reward_functions':
            v = [_component(reward_function_registry, e) for e in v]
        elif k == 'terminating_functions':
            v = [_component(terminating_function_registry, e) for e in v]
        elif k == 'transition_functions':
            v = [_component(transition_function_registry, e) for e in v]
        elif k == 'visibility_function':
            v = _component(visibility_function_registry, v)
        out[k] = v
    return out


def _component(registry, entry):
    """look the function up by name and bind the parameters it accepts (others are ignored)"""
    name = _strip(entry['name'])
    if registry is terminating_function_registry and name in ('reduce_any', 'reduce_all'):
        parts = [_component(registry, e) for e in entry['terminating_functions']]
        agg = any if name == 'reduce_any' else all
        return lambda s, a, n, *, rng=None: agg([p(s, a, n, rng=rng) for p in parts])   # own any/all
    if registry is reward_function_registry and name == 'reduce_sum':
        parts = [_component(registry, e) for e in entry['reward_functions']]
        return lambda s, a, n, *, rng=None: sum([p(s, a, n, rng=rng) for p in parts])    # own sum
    f = registry[name]
    accepted = set(inspect.signature(f).parameters)
    kw = {k: v for k, v in _convert_params(entry).items() if k in accepted}

    def bound(*a, **k):
        return f(*a, **kw, **k)

    return bound


def hand_assemble(data):
    """the environment the configuration *describes*, assembled without the YAML factory"""
    reset = _component(reset_function_registry, data['reset_function'])
    transitions = [_component(transition_function_registry, e) for e in data['transition_functions']]
    rewards = [_component(reward_function_registry, e) for e in data['reward_functions']]
    observation = _component(observation_function_registry, data['observation_function'])
    terminating = _component(terminating_function_registry, data['terminating_function'])

    def transition(state, action, *, rng=None):
        for t in transitions:
            t(state, action, rng=rng)

    def reward(state, action, next_state, *, rng=None):
        total = 0
        for r in rewards:
            total = total + r(state, action, next_state, rng=rng)
        return total

    actions = [Action[a] for a in data['action_space']] if 'action_space' in data else list(Action)
    sample = reset()
    st_space = StateSpace(Shape(sample.grid.shape.height, sample.grid.shape.width),
                          [_object_type(n) for n in data['state_space']['objects']], [go.Color[c] for c in data['state_space']['colors']])
    osample = observation(sample)
    ob_space = ObservationSpace(Shape(osample.grid.shape.height, osample.grid.shape.width),
                                [_object_type(n) for n in data['observation_space']['objects']], [go.Color[c] for c in data['observation_space']['colors']])
    return GridWorld(st_space, ActionSpace(actions), ob_space, reset, transition, observation, reward, terminating)
