"""Operation programs on inner environments and their canonical traces (C02, C04, C20)."""
import hashlib
import json

from vgv import configs, objs

# an op is ['reset'] | ['step', action_index] | ['obs'] | ['state'] | ['reseed', seed]


def run_op(env, op, started, record_reads=True):
    """apply one op; returns (trace entries, started)"""
    k = op[0]
    out = []
    if k == 'reset':
        env.reset()
        return [['reset', objs.canon_state(env.state)]], True
    if k == 'reseed':
        # the same instance is given a seed again and reset: from here on it must behave like a fresh environment with that seed
        env.set_seed(op[1])
        env.reset()
        return [['reseed', op[1], objs.canon_state(env.state)]], True
    if not started:
        return [['noop']], False
    if k == 'step':
        a = env.action_space.int_to_action(op[1] % env.action_space.num_actions)
        r, t = env.step(a)
        out.append(['step', a.name, float(r), bool(t), objs.canon_state(env.state)])
        if t:
            env.reset()
            out.append(['auto_reset', objs.canon_state(env.state)])
    elif k == 'obs':
        o = objs.canon_state(env.observation)
        if record_reads:
            out.append(['obs', o])
    elif k == 'state':
        s = objs.canon_state(env.state)
        if record_reads:
            out.append(['state', s])
    return out, True


def run_ops(env, ops, record_reads=True):
    """apply ops to a (seeded, not yet reset) inner environment; returns the canonical trace.
    steps before the first reset are skipped (recorded as 'noop') so that any op list is a valid program."""
    trace = []
    started = False
    for op in ops:
        t, started = run_op(env, op, started, record_reads)
        trace.extend(t)
    return trace


def trace_digest(trace):
    return hashlib.sha256(json.dumps(trace, sort_keys=True).encode()).hexdigest()


def program_digest(cfg, seed, ops):
    env = configs.build(cfg, seed)
    return trace_digest(run_ops(env, ops))


def entries_equal(x, y, tol=1e-12):
    """trace entries equal; rewards compared with a tolerance (summation order / compensated summation may differ by an ulp)"""
    import math
    if x[0] == 'step' and y[0] == 'step':
        return x[1] == y[1] and math.isclose(x[2], y[2], rel_tol=tol, abs_tol=tol) and x[3:] == y[3:]
    return x == y


def first_difference(t1, t2):
    """index of the first differing entry, or None"""
    for i, (x, y) in enumerate(zip(t1, t2)):
        if not entries_equal(x, y):
            return i
    return None if len(t1) == len(t2) else min(len(t1), len(t2))
