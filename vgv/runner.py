"""CLI:  runner.py <ID> quick|thorough      |      runner.py <ID> --replay <file>

exit 0 = held on everything explored (KNOWN-FINDING lines allowed)
exit 1 = VIOLATION property=<id> replay=<path> printed
exit 2 = harness error (never a verdict about the repository)
"""
import importlib
import json
import multiprocessing as mp
import os
import sys
import time
import warnings

warnings.filterwarnings('ignore')

from vgv import framework as fw  # noqa: E402
from vgv.findings import Findings  # noqa: E402

NPROC = int(os.environ.get('VERIF_NPROC', '16'))


def load(prop):
    mod = importlib.import_module('vgv.props.' + prop.lower())
    return mod


def _replay_task(args):
    _, prop, path = args
    warnings.filterwarnings('ignore')
    out = {'replay': path, 'ok': True, 'msg': '', 'known': {}, 'error': None}
    try:
        mod = load(prop)
        findings = Findings(os.path.join(fw.VERIF_DIR, 'known_findings.json'))
        checks = {c.name: c for c in mod.CHECKS}
        with open(path) as f:
            r = json.load(f)
        if r['check'] not in checks:
            out['error'] = f'unknown check {r["check"]}'
            return out
        ok, msg, rctx = fw.replay_case(prop, checks[r['check']], r['case'], findings, shard=int(r.get('shard') or 0))
        out.update(ok=ok, msg=msg, known=dict(rctx.ev.known))
    except BaseException as e:  # noqa: BLE001
        import traceback
        out['error'] = f'{type(e).__name__}: {e}\n{traceback.format_exc()}'
    return out


def _task(args):
    if args[0] == 'replay':
        return _replay_task(args)
    prop, idx, tier, seed, shard, nshards = args
    warnings.filterwarnings('ignore')
    mod = load(prop)
    findings = Findings(os.path.join(fw.VERIF_DIR, 'known_findings.json'))
    check = mod.CHECKS[idx]
    try:
        return fw.run_task(prop, check, idx, tier, seed, shard, nshards, findings)
    except BaseException as e:  # noqa: BLE001
        import traceback
        return {'check': check.name, 'shard': shard, 'violation': None,
                'error': f'{type(e).__name__}: {e}\n{traceback.format_exc()}', 'ev': fw.Ev().dump(), 'wall': 0.0}


def _child(conn, args):
    try:
        conn.send(_task(args))
    finally:
        conn.close()


def _died(args, proc):
    msg = f'worker process ended without a result (exit code {proc.exitcode}): killed, out of memory, or crashed the interpreter'
    if args[0] == 'replay':
        return {'replay': args[2], 'ok': True, 'msg': '', 'known': {}, 'error': msg}
    prop, idx, tier, seed, shard, nshards = args
    return {'check': load(prop).CHECKS[idx].name, 'shard': shard, 'violation': None, 'error': msg, 'ev': fw.Ev().dump(), 'wall': 0.0}


def run_all(alltasks, nproc):
    """one forked process per task, at most nproc at a time; a process that dies is a harness error for its task, never a hang"""
    from multiprocessing.connection import wait
    ctx = mp.get_context('fork')
    results = [None] * len(alltasks)
    pending = list(enumerate(alltasks))[::-1]
    running = {}
    while pending or running:
        while pending and len(running) < nproc:
            i, t = pending.pop()
            r, w = ctx.Pipe(duplex=False)
            p = ctx.Process(target=_child, args=(w, t))
            p.start()
            w.close()
            running[r] = (i, p)
        for r in wait(list(running)):
            i, p = running.pop(r)
            try:
                results[i] = r.recv()
            except (EOFError, OSError):
                p.join()
                results[i] = _died(alltasks[i], p)
            r.close()
            p.join()
    return results


def rel(path):
    return os.path.relpath(path, fw.VERIF_DIR)


def main(argv):
    if len(argv) < 3:
        print(__doc__)
        return 2
    prop = argv[1].upper()
    mod = load(prop)
    findings = Findings(os.path.join(fw.VERIF_DIR, 'known_findings.json'))
    checks = {c.name: c for c in mod.CHECKS}

    if argv[2] == '--replay':
        with open(argv[3]) as f:
            r = json.load(f)
        if r['property'] != prop:
            print(f'replay file is for {r["property"]}, not {prop}')
            return 2
        ok, msg, _ = fw.replay_case(prop, checks[r['check']], r['case'], findings, shard=int(r.get('shard') or 0))
        if ok:
            print(f'replay {argv[3]}: property holds on this case ({msg})')
            return 0
        print(f'replay {argv[3]}: {msg}')
        print(f'VIOLATION property={prop} replay={argv[3]}')
        return 1

    tier = argv[2]
    assert tier in ('quick', 'thorough'), tier
    seed = int(os.environ.get('VERIF_SEED', '1') or '1')
    t0 = time.time()
    violations = []
    errors = []

    # 1. regression replay tier (seconds): minimal inputs of every confirmed finding
    nreg = 0
    reg_known = {}
    saved = []
    for sub in ('regressions', 'corpus'):
        dd = os.path.join(fw.VERIF_DIR, 'replays', sub)
        saved += [os.path.join(dd, fn) for fn in sorted(os.listdir(dd))] if os.path.isdir(dd) else []
    replay_tasks = []
    for path in saved:
        fn = os.path.basename(path)
        if not fn.endswith('.json'):
            continue
        with open(path) as f:
            r = json.load(f)
        if r['property'] != prop:
            continue
        nreg += 1
        replay_tasks.append(('replay', prop, path))

    # 2. generated / enumerated / stateful search
    tasks = []
    for idx, c in enumerate(mod.CHECKS):
        n = c.shards[tier]
        for k in range(n):
            tasks.append((prop, idx, tier, seed, k, n))
    # every task (a saved replay, or one shard of one sub-check) runs in a process of its own, forked from this parent,
    # which never executes repository code itself: state that the code under test keeps at module or class level cannot
    # travel from one task to the next (it can still travel between the cases of one task, which is intended)
    alltasks = replay_tasks + tasks
    nproc = max(1, min(NPROC, len(alltasks)))
    allresults = run_all(alltasks, nproc)
    results = allresults[len(replay_tasks):]
    for rr in allresults[: len(replay_tasks)]:
        fn = os.path.basename(rr['replay'])
        if rr['error']:
            errors.append(f'saved case {fn}: {rr["error"]}')
            continue
        for k, v in rr['known'].items():
            reg_known[k] = reg_known.get(k, 0) + v
        if not rr['ok']:
            print(f'regression {fn}: {rr["msg"]}')
            violations.append((rel(rr['replay']), rr['msg']))

    per_check = {}
    founddir = os.environ.get('VERIF_FOUND_DIR') or os.path.join(fw.VERIF_DIR, 'replays', 'found')
    os.makedirs(founddir, exist_ok=True)
    for r in results:
        pc = per_check.setdefault(r['check'], {'evals': 0, 'nt': set(), 'classes': {}, 'samples': [], 'known': {}, 'inconclusive': 0, 'wall': 0.0, 'notes': []})
        ev = r['ev']
        pc['evals'] += ev['evals']
        pc['nt'].update(ev['nt'])
        for k, v in ev['classes'].items():
            pc['classes'][k] = pc['classes'].get(k, 0) + v
        for k, v in ev['known'].items():
            pc['known'][k] = pc['known'].get(k, 0) + v
        pc['inconclusive'] += ev['inconclusive']
        pc['wall'] = max(pc['wall'], r['wall'])
        if len(pc['samples']) < 3:
            pc['samples'].extend(ev['samples'][: 3 - len(pc['samples'])])
        for n_ in ev['notes']:
            if n_ not in pc['notes'] and len(pc['notes']) < 5:
                pc['notes'].append(n_)
        if r['error']:
            errors.append(f'[{r["check"]} shard {r["shard"]}] {r["error"]}')
        if r['violation']:
            path = os.path.join(founddir, f'{prop}-{r["check"]}-{tier}-{seed}-{r["shard"]}.json')
            with open(path, 'w') as f:
                json.dump({'property': prop, 'check': r['check'], 'case': r['violation']['case'],
                           'message': r['violation']['message'], 'sig': r['violation']['sig'],
                           'tier': tier, 'seed': seed, 'shard': r['shard']}, f, indent=1, default=str)
            print(f'[{r["check"]}] {r["violation"]["message"]}')
            violations.append((rel(path), r['violation']['message']))

    # required classes (a generator that never produces the shape that matters is a harness defect)
    for c in mod.CHECKS:
        pc = per_check.get(c.name)
        if pc is None:
            continue
        had_violation = any(r['check'] == c.name and r['violation'] for r in results)
        for cls in c.required:
            if pc['classes'].get(cls, 0) == 0 and not had_violation:
                errors.append(f'[{c.name}] required class "{cls}" was never generated')

    wall = time.time() - t0
    known_total = dict(reg_known)
    for pc in per_check.values():
        for k, v in pc['known'].items():
            known_total[k] = known_total.get(k, 0) + v

    # 3. evidence
    evaluations = sum(pc['evals'] for pc in per_check.values()) + nreg
    distinct_nt = sum(len(pc['nt']) for pc in per_check.values())
    samples = []
    for name, pc in per_check.items():
        for s in pc['samples'][:2]:
            samples.append({'check': name, 'case': s})
    rules = '; '.join(f'[{c.name}] {c.rule}' for c in mod.CHECKS if c.rule)
    evidence = {
        'property_id': prop, 'tier': tier, 'seed': seed, 'level': 'exploration',
        'coverage': {
            'evaluations': evaluations,
            'distinct_nontrivial': distinct_nt,
            'rule': (getattr(mod, 'RULE', '') + ' ' + rules).strip(),
            'samples': samples[:12],
            'exhaustive': all(c.exhaustive for c in mod.CHECKS),
            'per_check': {
                name: {
                    'evaluations': pc['evals'], 'distinct_nontrivial': len(pc['nt']),
                    'classes': dict(sorted(pc['classes'].items())),
                    'known_findings_hit': pc['known'], 'inconclusive': pc['inconclusive'],
                    'exhaustive': checks[name].exhaustive, 'wall_s': round(pc['wall'], 2),
                    'notes': pc['notes'],
                }
                for name, pc in per_check.items()
            },
            'regressions_replayed': nreg,
            'known_findings_hit': known_total,
            'shards': {c.name: c.shards[tier] for c in mod.CHECKS},
        },
        'assumptions': getattr(mod, 'ASSUMPTIONS', []),
        'wall_s': round(wall, 2),
        'violations': len(violations),
    }
    evdir = os.environ.get('VERIF_EVIDENCE_DIR') or os.path.join(fw.VERIF_DIR, 'evidence')
    os.makedirs(evdir, exist_ok=True)
    with open(os.path.join(evdir, f'{prop}.json'), 'w') as f:
        json.dump(evidence, f, indent=1, default=str)

    for e in findings.open_for(prop):
        print(f'KNOWN-FINDING: property={prop} {e["what"]} [id={e["id"]}, hit {known_total.get(e["id"], 0)}x in this run]')

    print(f'{prop} {tier} seed={seed}: {evaluations} cases, {distinct_nt} distinct non-trivial, '
          f'{len(violations)} violation(s), {len(errors)} harness error(s), {wall:.1f}s')
    for name, pc in per_check.items():
        print(f'   {name}: {pc["evals"]} cases, {len(pc["nt"])} nt, {pc["wall"]:.1f}s, classes={dict(sorted(pc["classes"].items()))}')

    if violations:
        for path, _ in violations:
            print(f'VIOLATION property={prop} replay={path}')
        return 1
    if errors:
        for e in errors:
            print('HARNESS-ERROR:', e, file=sys.stderr)
        return 2
    return 0


if __name__ == '__main__':
    try:
        rc = main(sys.argv)
    except SystemExit:
        raise
    except BaseException as e:  # noqa: BLE001 -- a crash of the machinery is exit 2, never a verdict
        import traceback
        traceback.print_exc()
        print(f'HARNESS-ERROR: {type(e).__name__}: {e}', file=sys.stderr)
        rc = 2
    sys.exit(rc)
