"""Trace worker for C02's cross-process check: reads JSON programs from stdin, one per
line ({'cfg':..., 'seed':..., 'ops':..., 'debug': bool|None} or {'fn':..., 'p':..., 'seed':..., 'n':...}), answers with the SHA-256 of the
canonical trace.  Started by the parent with a chosen PYTHONHASHSEED."""
import json
import sys
import warnings

warnings.filterwarnings('ignore')


def main():
    from vgv import configs, trace
    from gym_gridverse.debugging import reset_gv_debug
    sys.stdout.write('ready\n')
    sys.stdout.flush()
    for line in sys.stdin:
        line = line.strip()
        if not line:
            continue
        try:
            prog = json.loads(line)
            reset_gv_debug(prog.get('debug'))
            if 'fn' in prog:
                # a reset function called through the Python API (colours as a set, as its signature asks)
                from vgv.props import c02
                out = {'digest': c02.reset_digest(prog['fn'], prog['p'], prog['seed'], prog['n'])}
            else:
                env = configs.build(prog['cfg'], prog['seed'])
                out = {'digest': trace.trace_digest(trace.run_ops(env, prog['ops']))}
        except Exception as e:  # noqa: BLE001
            out = {'error': f'{type(e).__name__}: {e}'}
        sys.stdout.write(json.dumps(out) + '\n')
        sys.stdout.flush()


if __name__ == '__main__':
    main()
