"""helpers for the representation properties (C15, C16)"""
import numpy as np

from vgv import envs, model as M, objs

from gym_gridverse.geometry import Shape
from gym_gridverse.representations.observation_representations import make_observation_representation
from gym_gridverse.representations.state_representations import make_state_representation
from gym_gridverse.spaces import ObservationSpace, StateSpace

NAMES = ['default', 'no-overlap', 'compact']
COLOURED = ('Exit', 'Door', 'Key', 'Telepod', 'Beacon')


def state_space(shape, space):
    return StateSpace(Shape(*shape), envs.real_types(space['types']), envs.real_colors(space['colors']))


def obs_space(shape, space):
    return ObservationSpace(Shape(*shape), envs.real_types(space['types']), envs.real_colors(space['colors']))


def make_rep(kind, name, shape, space):
    if kind == 'state':
        return make_state_representation(name, state_space(shape, space))
    return make_observation_representation(name, obs_space(shape, space))


def convert(kind, rep, d):
    return rep.convert(objs.build_state(d) if kind == 'state' else objs.build_observation(d))


def all_objects(space, kind):
    """every object (descriptor) of the space: declared types x statuses x declared colours, plus Hidden for observations"""
    out = []
    cols = space['colors']
    for t in space['types']:
        if t == 'Floor':
            out.append('F')
        elif t == 'Wall':
            out.append('W')
        elif t == 'MovingObstacle':
            out.append('M')
        elif t == 'Box':
            out.append('B(F)')
        elif t == 'Door':
            out += [f'D:{s}:{c}' for s in objs.STATUSES for c in cols]
        else:
            out += [f'{objs.TYPE_LETTER[t]}:{c}' for c in cols]
    if kind == 'obs':
        out.append('H')
    return out


def arrays_equal(a, b):
    return sorted(a) == sorted(b) and all(np.array_equal(a[k], b[k]) for k in a)
