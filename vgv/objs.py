"""Descriptors: plain JSON-able values standing for grid objects, states,
observations, areas.  `build_*` turns a descriptor into real gym_gridverse
objects, `canon_*` turns real objects back into descriptors *deeply* (box
contents included -- stricter than the repository's ==).

Object descriptor grammar (strings):
    F  floor      W  wall       H  hidden      _  no object (empty hand)
    M  moving obstacle
    E:<COLOR>  exit      K:<COLOR> key     T:<COLOR> telepod    N:<COLOR> beacon
    D:<STATUS>:<COLOR>   door (STATUS in OPEN/CLOSED/LOCKED)
    B(<object>)          box with content
    X:<ClassName>:<state_index>:<COLOR>   anything else (custom objects); canon only
State / observation descriptor:
    {"grid": [[obj, ...], ...], "agent": [y, x, heading, held]}   heading in F R B L
Area descriptor: [[ymin, ymax], [xmin, xmax]]
"""
import gym_gridverse  # noqa: F401  (must be first: puts more_itertools on the path)
from gym_gridverse.agent import Agent
from gym_gridverse.geometry import Area, Orientation, Position, Shape
from gym_gridverse.grid import Grid
from gym_gridverse import grid_object as go
from gym_gridverse.observation import Observation
from gym_gridverse.state import State

COLORS = ['NONE', 'RED', 'GREEN', 'BLUE', 'YELLOW']
STATUSES = ['OPEN', 'CLOSED', 'LOCKED']
HEADINGS = ['F', 'R', 'B', 'L']  # clockwise
ACTIONS = [
    'MOVE_FORWARD', 'MOVE_BACKWARD', 'MOVE_LEFT', 'MOVE_RIGHT',
    'TURN_LEFT', 'TURN_RIGHT', 'ACTUATE', 'PICK_N_DROP',
]
# type name <-> descriptor letter
TYPE_LETTER = {
    'Floor': 'F', 'Wall': 'W', 'Hidden': 'H', 'NoneGridObject': '_',
    'MovingObstacle': 'M', 'Exit': 'E', 'Key': 'K', 'Telepod': 'T',
    'Beacon': 'N', 'Door': 'D', 'Box': 'B',
}
LETTER_TYPE = {v: k for k, v in TYPE_LETTER.items()}
# the registration order of the built-in types (model's own table; the
# repository's registry is compared against it in C16)
BUILTIN_TYPE_ORDER = [
    'NoneGridObject', 'Hidden', 'Floor', 'Wall', 'Exit', 'Door', 'Key',
    'MovingObstacle', 'Box', 'Telepod', 'Beacon',
]

_ORI = {'F': Orientation.F, 'R': Orientation.R, 'B': Orientation.B, 'L': Orientation.L}
_ORI_INV = {v: k for k, v in _ORI.items()}


def parse_obj(s):
    """-> dict(type, status, color, content)"""
    if s.startswith('B('):
        assert s.endswith(')'), s
        return {'type': 'Box', 'status': None, 'color': 'NONE', 'content': s[2:-1]}
    parts = s.split(':')
    letter = parts[0]
    if letter == 'X':
        return {'type': parts[1], 'status': int(parts[2]), 'color': parts[3], 'content': None}
    t = LETTER_TYPE[letter]
    if t == 'Door':
        return {'type': t, 'status': parts[1], 'color': parts[2], 'content': None}
    if t in ('Exit', 'Key', 'Telepod', 'Beacon'):
        return {'type': t, 'status': None, 'color': parts[1], 'content': None}
    return {'type': t, 'status': None, 'color': 'NONE', 'content': None}


def obj_type(s):
    if s.startswith('B('):
        return 'Box'
    if s.startswith('X:'):
        return s.split(':')[1]
    return LETTER_TYPE[s.split(':')[0]]


def build_obj(s):
    p = parse_obj(s)
    t = p['type']
    if t == 'Floor':
        return go.Floor()
    if t == 'Wall':
        return go.Wall()
    if t == 'Hidden':
        return go.Hidden()
    if t == 'NoneGridObject':
        return go.NoneGridObject()
    if t == 'MovingObstacle':
        return go.MovingObstacle()
    if t == 'Exit':
        return go.Exit(go.Color[p['color']])
    if t == 'Key':
        return go.Key(go.Color[p['color']])
    if t == 'Telepod':
        return go.Telepod(go.Color[p['color']])
    if t == 'Beacon':
        return go.Beacon(go.Color[p['color']])
    if t == 'Door':
        return go.Door(go.Door.Status[p['status']], go.Color[p['color']])
    if t == 'Box':
        return go.Box(build_obj(p['content']))
    raise ValueError(f'cannot build {s}')


def type_class(name):
    return getattr(go, name)


def canon_obj(o):
    t = type(o).__name__
    if t == 'Box' and isinstance(o, go.Box):
        return 'B(' + canon_obj(o.content) + ')'
    if t == 'Door' and isinstance(o, go.Door):
        return f'D:{o.state.name}:{o.color.name}'
    if t in ('Exit', 'Key', 'Telepod', 'Beacon') and type(o) in (go.Exit, go.Key, go.Telepod, go.Beacon):
        return f'{TYPE_LETTER[t]}:{o.color.name}'
    if type(o) in (go.Floor, go.Wall, go.Hidden, go.NoneGridObject, go.MovingObstacle):
        if o.color is not go.Color.NONE or o.state_index != 0:
            return f'X:{t}:{int(o.state_index)}:{o.color.name}'
        return TYPE_LETTER[t]
    return f'X:{t}:{int(o.state_index)}:{o.color.name}'


def build_grid(rows):
    return Grid([[build_obj(c) for c in row] for row in rows])


def build_agent(a):
    y, x, h, held = a
    return Agent(Position(y, x), _ORI[h], None if held == '_' else build_obj(held))


def build_state(d):
    return State(build_grid(d['grid']), build_agent(d['agent']))


def build_observation(d):
    return Observation(build_grid(d['grid']), build_agent(d['agent']))


def canon_grid(grid):
    return [[canon_obj(o) for o in row] for row in grid.objects]


def canon_agent(agent):
    p = agent.position
    return [int(p.y), int(p.x), _ORI_INV.get(agent.orientation, str(agent.orientation)), canon_obj(agent.grid_object)]


def canon_state(s):
    """works for State and Observation"""
    return {'grid': canon_grid(s.grid), 'agent': canon_agent(s.agent)}


def build_area(a):
    return Area((a[0][0], a[0][1]), (a[1][0], a[1][1]))


def canon_area(a):
    return [[int(a.ymin), int(a.ymax)], [int(a.xmin), int(a.xmax)]]


def build_shape(s):
    return Shape(s[0], s[1])


def ori(h):
    return _ORI[h]


def ori_name(o):
    return _ORI_INV[o]


def action(name):
    from gym_gridverse.action import Action
    return Action[name]


def color(name):
    return go.Color[name]
