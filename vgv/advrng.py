"""An adversarial numpy Generator: every call is answered with a *legal* outcome of that call (inside the documented
range, distinct when sampling without replacement), chosen at the extremes for the first `prefix` calls and cycling
afterwards (so that rejection loops terminate).  Every such sequence has positive probability under a true random
source; defects that need a one-in-a-billion seed (a draw of exactly 0.0, eleven equal draws in a row, a collision when
sampling sparsely) become reachable in a handful of cases."""
import numpy as np


class AdvRng(np.random.Generator):
    def __init__(self, mode='low', prefix=0, salt=0):
        super().__init__(np.random.PCG64(salt))
        assert mode in ('low', 'high')
        self.mode = mode
        self.prefix = prefix
        self.salt = salt
        self.calls = 0
        self.api = []

    # ---- one index in [0, n)
    def _pick(self, n):
        self.calls += 1
        if self.calls <= self.prefix:
            return 0 if self.mode == 'low' else n - 1
        return (self.calls * 7 + 3 + self.salt) % n

    def _unit(self):
        self.calls += 1
        if self.calls <= self.prefix:
            return 0.0 if self.mode == 'low' else float(np.nextafter(1.0, 0.0))
        return [0.0, 0.25, 0.5, 0.75, float(np.nextafter(1.0, 0.0)), 1e-9][(self.calls + self.salt) % 6]

    def integers(self, low, high=None, size=None, dtype=np.int64, endpoint=False):
        self.api.append('integers')
        lo, hi = (0, low) if high is None else (low, high)
        n = int(hi) - int(lo) + (1 if endpoint else 0)
        if n <= 0:
            raise ValueError('low >= high')
        if size is None:
            return int(lo) + self._pick(n)
        shape = (size,) if np.isscalar(size) else tuple(size)
        k = int(np.prod(shape))
        first = self._pick(n)
        vals = [first] * k if self.calls <= self.prefix else [(first + j) % n for j in range(k)]
        return (np.array(vals, dtype=dtype) + int(lo)).reshape(shape)

    def choice(self, a, size=None, replace=True, p=None, axis=0, shuffle=True):
        self.api.append('choice')
        if isinstance(a, (int, np.integer)):
            n, arr = int(a), None
            if n <= 0 and size is None:
                raise ValueError('a must be a positive integer unless no samples are taken')
        else:
            arr = list(a)
            n = len(arr)
            if n == 0 and size is None:
                raise ValueError("'a' cannot be empty unless no samples are taken")
        if size is None:
            i = self._pick(n)
            return i if arr is None else arr[i]
        k = int(size) if np.isscalar(size) else int(np.prod(size))
        if k < 0:
            raise ValueError('negative dimensions are not allowed')
        if not replace and k > n:
            raise ValueError("Cannot take a larger sample than population when replace is False")
        if n == 0 and k > 0:
            raise ValueError("a cannot be empty unless no samples are taken")
        if k == 0:
            idx = []
        elif replace:
            first = self._pick(n)
            idx = [first] * k if self.calls <= self.prefix else [(first + 3 * j) % n for j in range(k)]
        else:
            start = self._pick(n)
            idx = [(start + j) % n for j in range(k)]        # k distinct indices
        if arr is None:
            return np.array(idx, dtype=np.int64)
        out = np.empty(len(idx), dtype=object)
        for j, i in enumerate(idx):
            out[j] = arr[i]
        return out

    def random(self, size=None, dtype=np.float64, out=None):
        self.api.append('random')
        v = self._unit()
        if size is None:
            return dtype(v) if dtype is not np.float64 else v
        return np.full(size, v, dtype=dtype)

    def shuffle(self, x, axis=0):
        self.api.append('shuffle')
        self.calls += 1
        n = len(x)
        if n < 2:
            return
        if self.calls <= self.prefix:
            if self.mode == 'high':
                x[:] = x[::-1]
            return
        k = (self.calls + self.salt) % n
        x[:] = list(x[k:]) + list(x[:k])

    def permutation(self, x, axis=0):
        self.api.append('permutation')
        arr = list(range(x)) if isinstance(x, (int, np.integer)) else list(x)
        self.shuffle(arr)
        return np.array(arr)
