#!/bin/sh
# setup_cmd: offline; verifies the interpreter has what the checks need and installs
# hypothesis from the local wheelhouse into /verif/.deps only if /venv lacks it.
HERE="$(cd "$(dirname "$0")" && pwd)"
cd "$HERE" || exit 2
mkdir -p evidence replays/found .deps
if ! /venv/bin/python -c "import hypothesis" 2>/dev/null; then
  /venv/bin/pip install --no-index --find-links /opt/veriftools/wheels --target "$HERE/.deps" hypothesis || exit 2
fi
PYTHONPATH="$HERE:$HERE/vendor:$HERE/.deps:${VERIF_REPO:-/repo}" /venv/bin/python -W ignore -c "
import gym_gridverse, yaml, hypothesis, numpy
assert yaml.__file__.startswith('$HERE/vendor'), yaml.__file__
print('setup ok: hypothesis', hypothesis.__version__, 'yaml', yaml.__version__, 'numpy', numpy.__version__)
" || exit 2
